----------------------------- MODULE Semantics -----------------------------
(***************************************************************************)
(* Pure operators mirroring the private methods of                         *)
(* sismic/interpreter/default.py, one operator per method, same data.      *)
(*                                                                         *)
(* Interpreter state  S = [init, conf, mem, iq, eq, time, entryT, idleT,   *)
(*                         x, old]                                         *)
(*   mem[h]    : remembered set of history state h ({} = never saved)      *)
(*   iq, eq    : internal / external queue, Seq([due, ev, par, dl])        *)
(*   entryT, idleT : per state                                             *)
(*   x         : the one context counter, old[s] : __old__.x of state s    *)
(* Step oracle  orc = [gv, cfail, mfail]                                   *)
(*   gv[i]   truth value of the (oracle) guard of transition i             *)
(*   cfail   0 or the index (in evaluation order within the call) of the   *)
(*           contract-condition occurrence that evaluates to false         *)
(*   mfail   0 or the index of the meta-event delivery at which a bound    *)
(*           property statechart becomes final                             *)
(* Options      opt = [ignore (ignore_contract), metas (a listener is      *)
(*                     attached, so meta-events are observable)]           *)
(*                                                                         *)
(* MacroStep produces the chronological effect log of one execute_once    *)
(* call; an abort (contract failure, monitor failure, non-determinism,     *)
(* conflict) is "apply the prefix, then raise".                            *)
(***************************************************************************)
EXTENDS Chart, TLC

NoEv == [cls |-> "", due |-> 0, ev |-> 0, par |-> 0, dl |-> 0]

(* one log entry; every entry has the same fields so that recorded JSON logs *)
(* and model logs compare with =                                             *)
LogE(k, a, b, c, d, v, t) == [k |-> k, a |-> a, b |-> b, c |-> c, d |-> d, v |-> v, t |-> t]

InitState(c) ==
  [init |-> FALSE, conf |-> {}, mem |-> [s \in States(c) |-> {}], iq |-> <<>>, eq |-> <<>>,
   time |-> 0, entryT |-> [s \in States(c) |-> 0], idleT |-> [s \in States(c) |-> 0],
   x |-> 0, old |-> [s \in States(c) |-> -1]]

Final(S) == S.init /\ S.conf = {}

(* _queue_event: bisect_right on the due time, then insert *)
Enqueue(q, e) ==
  LET pos == Cardinality({i \in DOMAIN q : q[i].due <= e.due})
  IN InsertAt(q, pos + 1, e)

QEntry(due, ev, par, dl) == [due |-> due, ev |-> ev, par |-> par, dl |-> dl]

(* Interpreter.queue(Event(name, delay=dl, v=par)) *)
QueueExternal(S, ev, par, dl) == [S EXCEPT !.eq = Enqueue(@, QEntry(S.time + dl, ev, par, dl))]

(* _select_event: head of the internal queue if due, else head of the external queue if due *)
SelectEvent(S) ==
  IF Len(S.iq) > 0 /\ S.iq[1].due <= S.time THEN [cls |-> "i"] @@ S.iq[1]
  ELSE IF Len(S.eq) > 0 /\ S.eq[1].due <= S.time THEN [cls |-> "e"] @@ S.eq[1]
  ELSE NoEv

PopEvent(S, cls) == IF cls = "i" THEN [S EXCEPT !.iq = Tail(@)] ELSE [S EXCEPT !.eq = Tail(@)]

-----------------------------------------------------------------------------
(* Guards                                                                  *)
GuardValue(c, S, gv, i) ==
  LET t == c.trans[i] IN
  CASE t.gk = "none"   -> TRUE
    [] t.gk = "oracle" -> gv[i]
    [] t.gk = "after"  -> S.time - t.ga >= S.entryT[t.src]
    [] t.gk = "idle"   -> S.time - t.ga >= S.idleT[t.src]
    [] t.gk = "afterp" -> S.time - t.ga >= S.entryT[t.src]    \* the bare text  after(ga) : not traced, and the
    [] t.gk = "idlep"  -> S.time - t.ga >= S.idleT[t.src]     \* same text on several transitions
    [] t.gk = "active" -> t.ga \in S.conf
    [] t.gk = "xlt"    -> S.x < t.ga            \* guard  x < ga  (plain code, no oracle)

(* _select_transitions(event, states=conf), eventless_first, inner_first.  *)
(* Returns [sel : Seq(tid) in selection order, glog : Seq(log entries)]    *)
RECURSIVE SelClasses(_, _, _, _, _, _)
SelClasses(c, S, gv, ts, shown, acc) ==
  IF ts = {} THEN acc
  ELSE
    LET p    == Max({c.trans[i].prio : i \in ts})
        cls  == SortName({i \in ts : c.trans[i].prio = p})
        glog == [j \in DOMAIN cls |->
                   LogE("guard", cls[j], shown.ev, shown.par, 0,
                        IF GuardValue(c, S, gv, cls[j]) THEN 1 ELSE 0, S.time)]
        gl2  == SelectSeq(glog, LAMBDA e : c.trans[e.a].gk \notin {"none", "afterp", "idlep"})
        fnd  == SelectSeq(cls, LAMBDA i : GuardValue(c, S, gv, i))
        acc2 == [acc EXCEPT !.glog = @ \o gl2, !.sel = @ \o fnd]
    IN IF Len(fnd) > 0 THEN [acc2 EXCEPT !.found = TRUE]
       ELSE SelClasses(c, S, gv, {i \in ts : c.trans[i].prio # p}, shown, acc2)

RECURSIVE SelSources(_, _, _, _, _, _, _)
SelSources(c, S, gv, pool, srcs, shown, acc) ==
  IF srcs = <<>> THEN acc
  ELSE
    LET s == Head(srcs) IN
    IF s \in acc.ign THEN SelSources(c, S, gv, pool, Tail(srcs), shown, acc)
    ELSE
      LET r == SelClasses(c, S, gv, {i \in pool : c.trans[i].src = s}, shown,
                          [acc EXCEPT !.found = FALSE])
          r2 == IF r.found THEN [r EXCEPT !.ign = @ \cup Ancestors(c, s) \cup {s}] ELSE r
      IN SelSources(c, S, gv, pool, Tail(srcs), shown, r2)

SelectPool(c, S, gv, pool, shown) ==
  SelSources(c, S, gv, pool, SortNegDN(c, {c.trans[i].src : i \in pool}), shown,
             [sel |-> <<>>, glog |-> <<>>, ign |-> {}, found |-> FALSE])

SelectTransitions(c, S, gv, evr) ==
  LET cand  == {i \in DOMAIN c.trans : c.trans[i].src \in S.conf
                                       /\ (c.trans[i].ev = 0 \/ c.trans[i].ev = evr.ev)}
      r0    == SelectPool(c, S, gv, {i \in cand : c.trans[i].ev = 0}, NoEv)
  IN IF Len(r0.sel) > 0 THEN r0
     ELSE LET r1 == SelectPool(c, S, gv, {i \in cand : c.trans[i].ev # 0}, evr)
          IN [r1 EXCEPT !.glog = r0.glog \o @]

-----------------------------------------------------------------------------
(* _sort_transitions: pairwise checks in combination order, then the order *)
PairVerdict(c, a, b) ==
  LET ta == c.trans[a]
      tb == c.trans[b]
      l  == LCA(c, ta.src, tb.src)
      leaves(t) == t.tgt # 0 /\ t.tgt \notin Subtree(c, ChildToward(c, l, t.src))
  IN IF ta.src = tb.src \/ l = 0 \/ c.kind[l] # "orthogonal" THEN "NonDeterminismError"
     ELSE IF leaves(ta) \/ leaves(tb) THEN "ConflictingTransitionsError"
     ELSE ""

CheckConflicts(c, sel) ==
  LET n     == Len(sel)
      pairs == {<<i, j>> \in (1..n) \X (1..n) : i < j /\ PairVerdict(c, sel[i], sel[j]) # ""}
  IN IF pairs = {} THEN ""
     ELSE LET first == CHOOSE p \in pairs :
                          \A q \in pairs : p[1] < q[1] \/ (p[1] = q[1] /\ p[2] <= q[2])
          IN PairVerdict(c, sel[first[1]], sel[first[2]])

SortTransitions(c, sel) ==
  SetToSortSeq(Range(sel), LAMBDA a, b : LessNegDN(c, c.trans[a].src, c.trans[b].src))

-----------------------------------------------------------------------------
(* _create_steps: one planned micro step per transition, computed against  *)
(* the configuration at the start of the macro step                        *)
Micro(evr, tr, entered, exited) == [ev |-> evr, tr |-> tr, entered |-> entered, exited |-> exited]

EnterPath(c, l, tgt) ==
  LET anc == AncSeq(c, tgt)
      k   == IF l = 0 THEN Len(anc) ELSE (CHOOSE i \in DOMAIN anc : anc[i] = l) - 1
  IN Reverse(SubSeq(anc, 1, k)) \o <<tgt>>

PlanStep(c, conf, evr, i) ==
  LET t == c.trans[i] IN
  IF t.tgt = 0 THEN Micro(evr, i, <<>>, <<>>)
  ELSE LET l  == LCA(c, t.src, t.tgt)
           ch == ChildToward(c, l, t.src)
       IN Micro(evr, i, EnterPath(c, l, t.tgt), SortNegDN(c, Subtree(c, ch) \cap conf))

(* _create_stabilization_step; Micro with tr = 0 or "none" *)
NoMicro == [ev |-> NoEv, tr |-> -1, entered |-> <<>>, exited |-> <<>>]

LeafRule(c, mem, s) ==
  IF c.kind[s] = "final" /\ c.parent[s] = Root(c) THEN Micro(NoEv, 0, <<>>, <<s, Root(c)>>)
  ELSE IF IsHistory(c, s)
         THEN Micro(NoEv, 0, SortDN(c, IF mem[s] = {} THEN {c.memory[s]} ELSE mem[s]), <<s>>)
  ELSE IF c.kind[s] = "orthogonal" /\ Children(c, s) # {}
         THEN Micro(NoEv, 0, SortName(Children(c, s)), <<>>)
  ELSE IF c.kind[s] = "compound" /\ c.initial[s] # 0
         THEN Micro(NoEv, 0, <<c.initial[s]>>, <<>>)
  ELSE NoMicro

StabStep(c, conf, mem) ==
  LET lv   == SortNegDN(c, Leaves(c, conf))
      hits == {j \in DOMAIN lv : LeafRule(c, mem, lv[j]) # NoMicro}
      inc  == SortNegDN(c, {s \in conf : c.kind[s] = "orthogonal"
                                          /\ ~(Children(c, s) \subseteq conf)})
  IN IF hits # {} THEN LeafRule(c, mem, lv[Min(hits)])
     ELSE IF inc # <<>> THEN Micro(NoEv, 0, SortName(Children(c, inc[1]) \ conf), <<>>)
     ELSE NoMicro

-----------------------------------------------------------------------------
(* The accumulator threaded through one execute_once call                  *)
(*   S, clk, log, exc, eobj, eidx, cnt, mcnt, told, msent, steps           *)
Acc0(S, clk) ==
  [S |-> S, clk |-> clk, log |-> <<>>, exc |-> "", eobj |-> 0, eidx |-> 0,
   cnt |-> 0, mcnt |-> 0, told |-> -1, msent |-> <<>>, steps |-> <<>>]

Ok(A) == A.exc = ""

(* a meta-event reaches the attached listeners *)
DoMeta(opt, orc, A, k, a, b, cc) ==
  IF ~Ok(A) \/ ~opt.metas THEN A
  ELSE LET A1 == [A EXCEPT !.log = Append(@, LogE(k, a, b, cc, 0, 0, A.S.time)),
                           !.mcnt = @ + 1]
       IN IF orc.mfail = A1.mcnt THEN [A1 EXCEPT !.exc = "PropertyStatechartError"] ELSE A1

(* one contract condition of `owner` (state s > 0, transition -i) is evaluated *)
CondErr(ck) == CASE ck = 1 -> "PreconditionError" [] ck = 2 -> "PostconditionError"
                 [] ck = 3 -> "InvariantError"

(* post-conditions and invariants also see after(1) / idle(1) of state ts (the owner, or the source *)
(* state of the owning transition): logged as a "ctime" entry right before the condition           *)
DoCond(opt, orc, A, ck, owner, idx, old, ts) ==
  IF ~Ok(A) THEN A
  ELSE LET n  == A.cnt + 1
           ok == orc.cfail # n
           tm == IF ck = 1 THEN <<>>
                 ELSE <<LogE("ctime", owner, IF A.S.time - 1 >= A.S.entryT[ts] THEN 1 ELSE 0,
                             IF A.S.time - 1 >= A.S.idleT[ts] THEN 1 ELSE 0, 0, 0, A.S.time)>>
           A1 == [A EXCEPT !.cnt = n,
                           !.log = (@ \o tm) \o <<LogE("cond", ck, owner, idx, old,
                                                        IF ok THEN 1 ELSE 0, A.S.time)>>]
       IN IF ok THEN A1 ELSE [A1 EXCEPT !.exc = CondErr(ck), !.eobj = owner, !.eidx = idx]

RECURSIVE DoConds(_, _, _, _, _, _, _, _, _)
DoConds(opt, orc, A, ck, owner, cnt, idx, old, ts) ==
  IF opt.ignore \/ idx > cnt THEN A
  ELSE DoConds(opt, orc, DoCond(opt, orc, A, ck, owner, idx, old, ts), ck, owner, cnt, idx + 1, old, ts)

(* a code fragment runs: probe, counter, clock tick; its sends are kept for the end of the micro step *)
SentOf(d) ==
  LET snd == [j \in 1..Len(d.sends) |-> [k |-> "i", ev |-> d.sends[j].ev, dl |-> d.sends[j].dl,
                                         par |-> d.sends[j].par]]
      nts == [j \in 1..Len(d.nots) |-> [k |-> "m", ev |-> d.nots[j], dl |-> 0, par |-> 0]]
  IN IF d.nf = 1 THEN nts \o snd ELSE snd \o nts      \* nf: the fragment notifies before it sends

DoCode(A, k, a, b, cc, d) ==
  IF ~Ok(A) THEN A
  ELSE [A EXCEPT !.log = Append(@, LogE(k, a, b, cc, IF a % 2 = 0 THEN Cardinality(A.S.conf) ELSE 0 - 1,
                                                A.S.x, A.S.time)),   \* d: what active() says here (every other fragment looks)
                 !.S.x = @ + d.incx, !.clk = @ + d.tick,
                 !.msent = @ \o SentOf(d)]

(* exit one state *)
DoExit(c, opt, orc, A, s, conf0) ==
  IF ~Ok(A) THEN A
  ELSE
    LET A1 == DoCode(A, "xcode", s, 0, 0, c.exit[s])
        hs == IF c.kind[s] = "compound" THEN {h \in Children(c, s) : IsHistory(c, h)} ELSE {}
        m2 == [h \in States(c) |->
                 IF h \in hs
                   THEN IF c.kind[h] = "deep" THEN conf0 \cap Descendants(c, s)
                                              ELSE conf0 \cap Children(c, s)
                   ELSE A1.S.mem[h]]
        A2 == [A1 EXCEPT !.S.mem = m2, !.S.conf = @ \ {s}]
        A3 == DoConds(opt, orc, A2, 2, s, c.spost[s], 1, A2.S.old[s], s)
    IN DoMeta(opt, orc, A3, "xmeta", s, 0, 0)

(* process the transition of a micro step *)
DoTrans(c, opt, orc, A, i, evr) ==
  IF ~Ok(A) \/ i <= 0 THEN A
  ELSE
    LET t  == c.trans[i]
        A0 == IF ~opt.ignore /\ t.post + t.inv > 0 THEN [A EXCEPT !.told = A.S.x] ELSE A
        A1 == DoConds(opt, orc, A0, 1, -i, t.pre, 1, -1, t.src)
        A2 == DoConds(opt, orc, A1, 3, -i, t.inv, 1, A1.told, t.src)
        A3 == DoCode(A2, "acode", i, evr.ev, evr.par, t.act)
        A4 == DoConds(opt, orc, A3, 2, -i, t.post, 1, A3.told, t.src)
        A5 == DoConds(opt, orc, A4, 3, -i, t.inv, 1, A4.told, t.src)
        A6 == IF Ok(A5) THEN [A5 EXCEPT !.S.idleT[t.src] = A5.S.time] ELSE A5
    IN DoMeta(opt, orc, A6, "tmeta", t.src, t.tgt, evr.ev)

(* enter one state *)
DoEnter(c, opt, orc, A, s) ==
  IF ~Ok(A) THEN A
  ELSE
    LET A0 == IF ~opt.ignore /\ c.spost[s] + c.sinv[s] > 0 THEN [A EXCEPT !.S.old[s] = A.S.x]
                                                            ELSE A
        A1 == DoConds(opt, orc, A0, 1, s, c.spre[s], 1, -1, s)
        A2 == DoCode(A1, "ecode", s, 0, 0, c.entry[s])
        A3 == IF Ok(A2) THEN [A2 EXCEPT !.S.conf = @ \cup {s}, !.S.entryT[s] = A2.S.time,
                                         !.S.idleT[s] = A2.S.time]
                        ELSE A2
    IN DoMeta(opt, orc, A3, "emeta", s, 0, 0)

(* _raise_event for one event produced by code *)
DoRaise(opt, orc, A, e) ==
  IF ~Ok(A) THEN A
  ELSE IF e.k = "i"
    THEN LET A1 == [A EXCEPT !.S.iq = Enqueue(@, QEntry(A.S.time + e.dl, e.ev, e.par, e.dl))]
         IN DoMeta(opt, orc, A1, "sent", e.ev, e.dl, e.par)
    ELSE DoMeta(opt, orc, A, "user", e.ev, 0, 0)

(* _apply_step *)
ApplyMicro(c, opt, orc, A, m) ==
  IF ~Ok(A) THEN A
  ELSE
    LET conf0 == A.S.conf
        A0 == [A EXCEPT !.msent = <<>>, !.told = -1]
        A1 == FoldLeft(LAMBDA acc, s : DoExit(c, opt, orc, acc, s, conf0), A0, m.exited)
        A2 == DoTrans(c, opt, orc, A1, m.tr, m.ev)
        A3 == FoldLeft(LAMBDA acc, s : DoEnter(c, opt, orc, acc, s), A2, m.entered)
        A4 == FoldLeft(LAMBDA acc, e : DoRaise(opt, orc, acc, e), A3, A3.msent)
    IN IF Ok(A4)
         THEN [A4 EXCEPT !.steps = Append(@, [ev |-> m.ev.ev, par |-> m.ev.par, cls |-> m.ev.cls,
                                              tr |-> IF m.tr > 0 THEN m.tr ELSE 0,
                                              entered |-> m.entered, exited |-> m.exited,
                                              sent |-> A3.msent])]
         ELSE A4

(* _stabilize *)
RECURSIVE Stabilize(_, _, _, _)
Stabilize(c, opt, orc, A) ==
  IF ~Ok(A) THEN A
  ELSE LET m == StabStep(c, A.S.conf, A.S.mem)
       IN IF m = NoMicro THEN A ELSE Stabilize(c, opt, orc, ApplyMicro(c, opt, orc, A, m))

ApplyAll(c, opt, orc, A, plan) ==
  FoldLeft(LAMBDA acc, m : Stabilize(c, opt, orc, ApplyMicro(c, opt, orc, acc, m)), A, plan)

(* state invariants at the end of every call, configuration order = (depth, name) *)
EndInvariants(c, opt, orc, A) ==
  FoldLeft(LAMBDA acc, s : DoConds(opt, orc, acc, 3, s, c.sinv[s], 1, acc.S.old[s], s),
           A, SortDN(c, A.S.conf))

-----------------------------------------------------------------------------
(* execute_once.  Returns the final accumulator; the observable result is   *)
(*   A.exc = ""  : returned MacroStep = A.steps (None when empty),          *)
(*   A.exc # ""  : that exception was raised                                *)
MacroStep(c, opt, orc, S0, clk0) ==
  LET S1 == [S0 EXCEPT !.time = clk0]
      A1 == DoMeta(opt, orc, Acc0(S1, clk0), "start", clk0, 0, 0)
  IN
  IF ~Ok(A1) THEN A1
  ELSE IF ~S1.init THEN
    LET A2 == [A1 EXCEPT !.S.init = TRUE]
        A3 == ApplyAll(c, opt, orc, A2, <<Micro(NoEv, 0, <<Root(c)>>, <<>>)>>)
        A4 == EndInvariants(c, opt, orc, A3)
    IN DoMeta(opt, orc, A4, "end", 0, 0, 0)
  ELSE
    LET evr == SelectEvent(S1)
        r   == SelectTransitions(c, S1, orc.gv, evr)
        A2  == [A1 EXCEPT !.log = @ \o r.glog]
        err == CheckConflicts(c, r.sel)
    IN
    IF err # "" THEN [A2 EXCEPT !.exc = err]
    ELSE
      LET sorted == SortTransitions(c, r.sel)
          useev  == IF sorted = <<>> THEN evr
                    ELSE IF c.trans[sorted[1]].ev = 0 THEN NoEv ELSE evr
          plan   == IF sorted = <<>>
                      THEN IF evr = NoEv THEN <<>> ELSE <<Micro(evr, 0, <<>>, <<>>)>>
                      ELSE [j \in DOMAIN sorted |-> PlanStep(c, S1.conf, useev, sorted[j])]
          A3 == IF plan # <<>> /\ plan[1].ev # NoEv
                  THEN DoMeta(opt, orc, [A2 EXCEPT !.S = PopEvent(@, evr.cls)],
                              "consumed", evr.ev, evr.par, 0)
                  ELSE A2
          A4 == ApplyAll(c, opt, orc, A3, plan)
          A5 == EndInvariants(c, opt, orc, A4)
      IN DoMeta(opt, orc, A5, "end", 0, 0, 0)

(* Interpreter.execute(max_steps): execute_once until it returns None, or max_steps macro steps   *)
(* (max <= 0: no bound; `fuel` only bounds the model on non-quiescent charts).  Returns the last  *)
(* accumulator with steps = all micro steps of all macro steps, log = all logs, n = macro steps.  *)
RECURSIVE RunMany(_, _, _, _, _, _, _, _)
RunMany(c, opt, orc, S, clk, max, acc, fuel) ==
  LET A == MacroStep(c, opt, orc, S, clk) IN
  IF A.exc # "" THEN [acc EXCEPT !.S = A.S, !.clk = A.clk, !.exc = A.exc, !.eobj = A.eobj, !.eidx = A.eidx,
                                 !.log = @ \o A.log]
  ELSE IF A.steps = <<>> THEN [acc EXCEPT !.S = A.S, !.clk = A.clk, !.log = @ \o A.log]
  ELSE LET acc2 == [acc EXCEPT !.S = A.S, !.clk = A.clk, !.log = @ \o A.log, !.steps = @ \o A.steps,
                               !.n = @ + 1]
       IN IF (max > 0 /\ acc2.n = max) \/ fuel = 0 THEN acc2
          ELSE RunMany(c, opt, orc, A.S, A.clk, max, acc2, fuel - 1)

ExecuteMany(c, opt, orc, S, clk, max) ==
  RunMany(c, opt, orc, S, clk, max, [Acc0(S, clk) EXCEPT !.log = <<>>] @@ [n |-> 0], 8)
=============================================================================
