-------------------------------- MODULE Yaml --------------------------------
(***************************************************************************)
(* sismic/io/yaml.py + sismic/io/datadict.py on ABSTRACT documents.        *)
(*                                                                         *)
(* A document is flat:                                                     *)
(*   d = [hasName, hasRoot, extra,            -- the 'statechart' mapping  *)
(*        nodes : Seq([name, type, up, sec, initial, memory, extra,        *)
(*                     trans : Seq([tgt, ev, prio, extra])])]              *)
(*   nodes[1] is the root state (up = 0, sec = "r"); node j is listed in   *)
(*   the 'states' (sec = "s") or 'parallel states' (sec = "p") list of     *)
(*   node up; name = 0 means the key is missing; names are integers (the   *)
(*   harness renders name k as a string); extra = an unknown key is        *)
(*   present.  prio: an integer, or Hi / Lo for the words 'high' / 'low',  *)
(*   or Bogus for an unknown word.                                         *)
(*                                                                         *)
(* Accepts(d)  -- the importer, operationally: schema, then the DFS that   *)
(*                builds states, then Statechart.add_state /               *)
(*                add_transition (the guard chains of Model.tla), then     *)
(*                validate().                                              *)
(* DocSound(d) -- the rules listed in property C12, declaratively.         *)
(* Import(d)   -- the resulting structure (a Model.tla structure).         *)
(***************************************************************************)
EXTENDS Model

Hi == 1000
Lo == -1000
Bogus == 999
Types == {"", "final", "shallow history", "deep history"}

Node(name, type, up, sec, initial, memory, trans) ==
  [name |-> name, type |-> type, up |-> up, sec |-> sec, initial |-> initial, memory |-> memory,
   extra |-> FALSE, trans |-> trans]
DTr(tgt, ev, prio) == [tgt |-> tgt, ev |-> ev, prio |-> prio, extra |-> FALSE]

Idx(d) == DOMAIN d.nodes
ListOf(d, i, sec) == {j \in Idx(d) : d.nodes[j].up = i /\ d.nodes[j].sec = sec}

KindOf(d, i) ==
  LET t == d.nodes[i].type IN
  CASE t = "final" -> "final"
    [] t = "shallow history" -> "shallow"
    [] t = "deep history" -> "deep"
    [] t = "" -> IF ListOf(d, i, "s") # {} THEN "compound"
                 ELSE IF ListOf(d, i, "p") # {} THEN "orthogonal" ELSE "basic"
    [] OTHER -> "?"

BothLists(d, i) == d.nodes[i].type = "" /\ ListOf(d, i, "s") # {} /\ ListOf(d, i, "p") # {}

(* children the importer actually visits *)
EffKids(d, i) ==
  IF KindOf(d, i) = "compound" THEN ListOf(d, i, "s")
  ELSE IF KindOf(d, i) = "orthogonal" THEN ListOf(d, i, "p") ELSE {}

RECURSIVE EffFrom(_, _)
EffFrom(d, i) == {i} \cup UNION {EffFrom(d, j) : j \in EffKids(d, i)}
Eff(d) == IF d.nodes = <<>> THEN {} ELSE EffFrom(d, 1)

PrioOK(p) == p # Bogus

SchemaOK(d) ==
  /\ d.hasName /\ d.hasRoot /\ ~d.extra /\ d.nodes # <<>>
  /\ \A i \in Idx(d) :
       /\ d.nodes[i].name # 0 /\ ~d.nodes[i].extra /\ d.nodes[i].type \in Types
       /\ \A k \in DOMAIN d.nodes[i].trans : ~d.nodes[i].trans[k].extra /\ PrioOK(d.nodes[i].trans[k].prio)

Accepts(d) ==
  /\ SchemaOK(d)
  /\ LET E == Eff(d)
         nameOf(i) == d.nodes[i].name
     IN /\ \A i \in E : ~BothLists(d, i)
        /\ \A i, j \in E : i # j => nameOf(i) # nameOf(j)                       \* add_state: exists
        /\ KindOf(d, 1) \notin History                                          \* add_state: root
        /\ \A i \in E \ {1} : KindOf(d, i) \in History => KindOf(d, d.nodes[i].up) = "compound"
        /\ \A i \in E : \A k \in DOMAIN d.nodes[i].trans :                      \* add_transition
             /\ KindOf(d, i) \in Owner
             /\ d.nodes[i].trans[k].tgt = 0 \/ \E j \in E : nameOf(j) = d.nodes[i].trans[k].tgt
        /\ \A i \in E : (KindOf(d, i) = "compound" /\ d.nodes[i].initial # 0) =>     \* validate()
             \E j \in EffKids(d, i) : nameOf(j) = d.nodes[i].initial
        /\ \A i \in E : (KindOf(d, i) \in History /\ d.nodes[i].memory # 0) =>
             /\ d.nodes[i].memory # nameOf(i)
             /\ \E j \in EffKids(d, d.nodes[i].up) : nameOf(j) = d.nodes[i].memory

(* The rules of C12, on the document as written *)
DocSound(d) ==
  /\ d.hasName /\ d.hasRoot /\ d.nodes # <<>>                                    \* name, root state
  /\ \A i \in Idx(d) : d.nodes[i].name # 0
  /\ ~d.extra /\ \A i \in Idx(d) : ~d.nodes[i].extra                            \* unknown keys
                                   /\ \A k \in DOMAIN d.nodes[i].trans : ~d.nodes[i].trans[k].extra
  /\ \A i \in Idx(d) : d.nodes[i].type \in Types                                \* unknown types
  /\ \A i \in Idx(d) : \A k \in DOMAIN d.nodes[i].trans : d.nodes[i].trans[k].prio # Bogus
  /\ \A i \in Idx(d) : ~(ListOf(d, i, "s") # {} /\ ListOf(d, i, "p") # {})       \* both lists
  /\ \A i, j \in Idx(d) : i # j => d.nodes[i].name # d.nodes[j].name            \* unique names
  /\ \A i \in Idx(d) : d.nodes[i].trans # <<>> => d.nodes[i].type = ""          \* may own transitions
  /\ \A i \in Idx(d) : \A k \in DOMAIN d.nodes[i].trans :                       \* existing targets
        d.nodes[i].trans[k].tgt = 0 \/ \E j \in Idx(d) : d.nodes[j].name = d.nodes[i].trans[k].tgt
  /\ \A i \in Idx(d) : d.nodes[i].type \in {"shallow history", "deep history"} =>   \* inside a compound
        (i # 1 /\ d.nodes[i].sec = "s" /\ d.nodes[d.nodes[i].up].type = "")
  /\ \A i \in Idx(d) : (d.nodes[i].initial # 0 /\ ListOf(d, i, "s") # {}) =>        \* initial: a child
        \E j \in ListOf(d, i, "s") : d.nodes[j].name = d.nodes[i].initial
  /\ \A i \in Idx(d) : (d.nodes[i].type \in {"shallow history", "deep history"} /\ d.nodes[i].memory # 0) =>
        /\ d.nodes[i].memory # d.nodes[i].name
        /\ \E j \in ListOf(d, d.nodes[i].up, d.nodes[i].sec) : d.nodes[j].name = d.nodes[i].memory

(* The structure the importer builds (only meaningful when Accepts(d)) *)
PrioIn(p) == IF p = Hi THEN 1 ELSE IF p = Lo THEN -1 ELSE p

Import(d) ==
  LET E == Eff(d)
      ix(n) == CHOOSE i \in E : d.nodes[i].name = n
      has(n) == \E i \in E : d.nodes[i].name = n
      names == {d.nodes[i].name : i \in E}
  IN [names |-> names,
      kind |-> [n \in U |-> IF has(n) THEN KindOf(d, ix(n)) ELSE ""],
      parent |-> [n \in U |-> IF ~has(n) THEN -1
                              ELSE IF ix(n) = 1 THEN 0 ELSE d.nodes[d.nodes[ix(n)].up].name],
      children |-> [n \in U |-> IF ~has(n) THEN <<>>
                                ELSE SetToSeq({d.nodes[j].name : j \in EffKids(d, ix(n))})],
      roots |-> <<d.nodes[1].name>>,
      initial |-> [n \in U |-> IF has(n) /\ KindOf(d, ix(n)) = "compound" THEN d.nodes[ix(n)].initial ELSE 0],
      memory |-> [n \in U |-> IF has(n) /\ KindOf(d, ix(n)) \in History THEN d.nodes[ix(n)].memory ELSE 0],
      trans |-> FlattenSeq([i \in 1..Len(d.nodes) |->
                   IF i \in E THEN [k \in DOMAIN d.nodes[i].trans |->
                                      Tr(d.nodes[i].name, d.nodes[i].trans[k].tgt, d.nodes[i].trans[k].ev)]
                   ELSE <<>>])]

(* priorities as the importer maps them, per transition in document order *)
ImportPrios(d) ==
  FlattenSeq([i \in 1..Len(d.nodes) |->
     IF i \in Eff(d) THEN [k \in DOMAIN d.nodes[i].trans |-> PrioIn(d.nodes[i].trans[k].prio)] ELSE <<>>])

-----------------------------------------------------------------------------
(* export_to_dict on a chart of the ChartsData shape (valid statechart)    *)
PrioOut(p) == IF p = 1 THEN Hi ELSE IF p = -1 THEN Lo ELSE p

RECURSIVE PreOrder(_, _)
PreOrder(c, s) ==
  <<s>> \o FlattenSeq([k \in 1..Cardinality({x \in 1..c.n : c.parent[x] = s}) |->
              PreOrder(c, SetToSortSeq({x \in 1..c.n : c.parent[x] = s}, LAMBDA a, b : a < b)[k])])

Export(c) ==
  LET root == CHOOSE s \in 1..c.n : c.parent[s] = 0
      order == PreOrder(c, root)
      pos(s) == CHOOSE i \in DOMAIN order : order[i] = s
      ty(s) == CASE c.kind[s] = "final" -> "final" [] c.kind[s] = "shallow" -> "shallow history"
                 [] c.kind[s] = "deep" -> "deep history" [] OTHER -> ""
  IN [hasName |-> TRUE, hasRoot |-> TRUE, extra |-> FALSE,
      nodes |-> [i \in DOMAIN order |->
         LET s == order[i] IN
         Node(s, ty(s), IF c.parent[s] = 0 THEN 0 ELSE pos(c.parent[s]),
              IF c.parent[s] = 0 THEN "r" ELSE IF c.kind[c.parent[s]] = "compound" THEN "s" ELSE "p",
              IF c.kind[s] = "compound" THEN c.initial[s] ELSE 0,
              IF c.kind[s] \in History THEN c.memory[s] ELSE 0,
              LET ts == SelectSeq([k \in DOMAIN c.trans |-> k], LAMBDA k : c.trans[k].src = s)
              IN [k \in DOMAIN ts |-> DTr(c.trans[ts[k]].tgt, c.trans[ts[k]].ev, PrioOut(c.trans[ts[k]].prio))])]]

(* C11, structural half: import(export(c)) is c *)
RoundTrip(c) ==
  LET d == Export(c)
      T == Import(d)
  IN /\ Accepts(d)
     /\ T.names = 1..c.n
     /\ \A s \in 1..c.n : /\ T.kind[s] = c.kind[s] /\ T.parent[s] = c.parent[s]
                          /\ T.initial[s] = c.initial[s] /\ T.memory[s] = c.memory[s]
     /\ BagOf(T.trans) = BagOf([k \in DOMAIN c.trans |-> Tr(c.trans[k].src, c.trans[k].tgt, c.trans[k].ev)])
     /\ BagOf(ImportPrios(d)) = BagOf([k \in DOMAIN c.trans |-> c.trans[k].prio])
=============================================================================
