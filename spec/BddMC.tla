------------------------------- MODULE BddMC -------------------------------
(* Scenario enumeration: TLC appends one predefined step at a time; a scenario *)
(* stops at the first 'then' step that does not pass (behave skips the rest).  *)
EXTENDS Bdd, ChartsData, Json

CONSTANTS MaxSteps, EmitEdges, Xs
VARIABLES ci, B, dead, hist, verdicts
vars == <<ci, B, dead, hist, verdicts>>
View == <<ci, B, dead>>

c == Charts[ci]
St(kw, kind, a, b, n) == [kw |-> kw, kind |-> kind, a |-> a, b |-> b, n |-> n]

Init == ci \in DOMAIN Charts /\ B = BInit(Charts[ci]) /\ dead = FALSE /\ hist = <<>> /\ verdicts = <<>>

Do(st) ==
  LET r == Apply1(c, B, st) IN
  /\ B' = r.B
  /\ dead' = ~r.pass
  /\ hist' = Append(hist, st)
  /\ verdicts' = Append(verdicts, IF r.pass THEN 1 ELSE 0)
  /\ UNCHANGED ci

Events == Range(c.events)
Next ==
  /\ ~dead /\ Len(hist) < MaxSteps
  /\ \/ \E kw \in {"given", "when"} :
          \/ \E e \in Events, p \in {0, 7} : Do(St(kw, "send", e, p, 0))
          \/ \E d \in {1, 2} : Do(St(kw, "wait", d, 0, 0))
          \/ Do(St(kw, "nothing", 0, 0, 0))
          \/ \E e \in Events : Do(St(kw, "repeat", e, 0, 2))
          \/ Do(St(kw, "reproduce", 0, 0, 0))
     \/ \E k \in {"entered", "not_entered", "exited", "not_exited", "active", "not_active"} :
          \E s \in States(c) : Do(St("then", k, s, 0, 0))
     \/ \E e \in Events : \/ Do(St("then", "fired", e, 0, 0)) \/ Do(St("then", "fired", e, 7, 0))
                         \/ Do(St("then", "fired", e, 8, 0))
                         \/ Do(St("then", "not_fired", e, 0, 0))
     \/ Do(St("then", "no_event", 0, 0, 0))
     \/ \E v \in Xs : \E k \in {"var_eq", "var_neq", "expr_holds", "expr_not_holds"} : Do(St("then", k, v, 0, 0))
     \/ \E k \in {"final", "not_final"} : Do(St("then", k, 0, 0, 0))

Spec == Init /\ [][Next]_vars
Emit == EmitEdges => PrintT(ToJson([ci |-> ci, hist |-> hist', verdicts |-> verdicts']))

(* sanity of the model: assertions and their negations are complementary, given needs a when *)
Complementary ==
  \A s \in States(c) : B.has =>
     /\ Truth(c, B, St("then", "entered", s, 0, 0)) # Truth(c, B, St("then", "not_entered", s, 0, 0))
     /\ Truth(c, B, St("then", "active", s, 0, 0)) # Truth(c, B, St("then", "not_active", s, 0, 0))
=============================================================================
