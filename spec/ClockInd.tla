------------------------------ MODULE ClockInd ------------------------------
(* Unbounded-integer inductive argument for spec/Clock.tla (same actions,   *)
(* without the history variables): IndInv is inductive and implies Value =  *)
(* ideal; Monotonic is checked as an action invariant from IndInv.          *)
EXTENDS Integers

VARIABLES
  \* @type: Int;
  now,
  \* @type: Int;
  base,
  \* @type: Int;
  acc,
  \* @type: Bool;
  play,
  \* @type: Int;
  speed,
  \* @type: Int;
  ideal

Elapsed == IF play THEN (now - base) * speed ELSE 0
Value == acc + Elapsed

Init == now = 0 /\ base = 0 /\ acc = 0 /\ play = FALSE /\ speed = 1 /\ ideal = 0

Start == /\ (IF play THEN UNCHANGED <<base, play>> ELSE base' = now /\ play' = TRUE)
         /\ UNCHANGED <<now, acc, speed, ideal>>
Stop == /\ (IF play THEN acc' = acc + Elapsed /\ play' = FALSE ELSE UNCHANGED <<acc, play>>)
        /\ UNCHANGED <<now, base, speed, ideal>>
SetSpeed == \E k \in Nat : /\ acc' = acc + Elapsed /\ base' = now /\ speed' = k
                           /\ UNCHANGED <<now, play, ideal>>
SetTime == \E v \in Int :
   /\ UNCHANGED <<now, play, speed>>
   /\ IF v < Value THEN UNCHANGED <<acc, base, ideal>>
      ELSE acc' = v /\ base' = now /\ ideal' = v
Pass == \E dt \in Nat :
   /\ now' = now + dt
   /\ ideal' = ideal + (IF play THEN speed * dt ELSE 0)
   /\ UNCHANGED <<base, acc, play, speed>>

Next == Start \/ Stop \/ SetSpeed \/ SetTime \/ Pass

IndInv == /\ Value = ideal /\ now >= base /\ speed >= 0
IndInit == /\ now \in Int /\ base \in Int /\ acc \in Int /\ play \in BOOLEAN /\ speed \in Int /\ ideal \in Int
           /\ IndInv
Monotonic == Value' >= Value
=============================================================================
