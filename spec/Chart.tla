------------------------------- MODULE Chart -------------------------------
(***************************************************************************)
(* Static structure of a statechart (sismic/model/statechart.py).          *)
(* A chart c is a record                                                   *)
(*   [n, kind, parent, initial, memory, trans, entry, exit, spre, spost,   *)
(*    sinv, events]                                                        *)
(* whose states are 1..c.n; the integer order IS the lexicographic order   *)
(* of the concrete state names (harness/realize.py chooses names so).      *)
(* 0 stands for "none" (no parent = root, no initial, no memory, internal  *)
(* transition target, eventless transition).                               *)
(***************************************************************************)
EXTENDS Naturals, Integers, Sequences, FiniteSets, SequencesExt, FiniteSetsExt, Functions

States(c) == 1..c.n
Root(c) == CHOOSE s \in States(c) : c.parent[s] = 0
Children(c, s) == {t \in States(c) : c.parent[t] = s}

IsComposite(c, s) == c.kind[s] \in {"compound", "orthogonal"}
IsHistory(c, s) == c.kind[s] \in {"shallow", "deep"}
CanOwnTransitions(c, s) == c.kind[s] \in {"basic", "compound", "orthogonal"}

(* ancestors_for: deepest first *)
RECURSIVE AncSeq(_, _)
AncSeq(c, s) == IF c.parent[s] = 0 THEN <<>> ELSE <<c.parent[s]>> \o AncSeq(c, c.parent[s])
Ancestors(c, s) == Range(AncSeq(c, s))
Depth(c, s) == Len(AncSeq(c, s)) + 1
Descendants(c, s) == {t \in States(c) : s \in Ancestors(c, t)}
Subtree(c, s) == {s} \cup Descendants(c, s)

(* least_common_ancestor: deepest STRICT ancestor of both; 0 if none *)
LCA(c, a, b) ==
  LET sa == AncSeq(c, a)
      common == {i \in DOMAIN sa : sa[i] \in Ancestors(c, b)}
  IN IF common = {} THEN 0 ELSE sa[Min(common)]

(* "last_before_lca": the child of l on the path to s (s itself if parent(s) = l); *)
(* with l = 0 this is the root                                                    *)
ChildToward(c, l, s) ==
  IF c.parent[s] = l THEN s
  ELSE LET sa == AncSeq(c, s)
           idx == {i \in DOMAIN sa : c.parent[sa[i]] = l}
       IN sa[CHOOSE i \in idx : TRUE]

(* leaf_for *)
Leaves(c, S) == {s \in S : Descendants(c, s) \cap S = {}}

(* (depth, name) order and its sorted sequences *)
LessDN(c, a, b) == Depth(c, a) < Depth(c, b) \/ (Depth(c, a) = Depth(c, b) /\ a < b)
LessNegDN(c, a, b) == Depth(c, a) > Depth(c, b) \/ (Depth(c, a) = Depth(c, b) /\ a < b)
SortDN(c, S) == SetToSortSeq(S, LAMBDA a, b : LessDN(c, a, b))
SortNegDN(c, S) == SetToSortSeq(S, LAMBDA a, b : LessNegDN(c, a, b))
SortName(S) == SetToSortSeq(S, LAMBDA a, b : a < b)

(* events_for(all) *)
EventsOf(c) == {c.trans[i].ev : i \in DOMAIN c.trans} \ {0}

-----------------------------------------------------------------------------
(* Well-formedness, DESIGN.md 2.1 (W1 is about names: harness side)         *)
WFTransition(c, t) ==
  /\ t.src \in States(c) /\ CanOwnTransitions(c, t.src)
  /\ t.tgt \in States(c) \cup {0}
  /\ (t.tgt # 0 /\ IsHistory(c, t.tgt)) =>
        LET p == c.parent[t.tgt] IN t.src # p   \* W6 (the generators keep t.src outside Subtree(c, p), except family_hist_inside)
  /\ t.tgt # 0 =>
        LET l == LCA(c, t.src, t.tgt) IN
          (l # 0 /\ c.kind[l] = "orthogonal") =>
             t.tgt \in Subtree(c, ChildToward(c, l, t.src))                          \* W7

WF(c) ==
  /\ Cardinality({s \in States(c) : c.parent[s] = 0}) = 1
  /\ \A s \in States(c) : c.parent[s] \in States(c) \cup {0} /\ s \notin Ancestors(c, s)
  /\ CanOwnTransitions(c, Root(c))
  /\ \A s \in States(c) :
        /\ IsComposite(c, s) <=> Children(c, s) # {}                                 \* W2
        /\ IF c.kind[s] = "compound" THEN c.initial[s] \in Children(c, s)            \* W3
                                     ELSE c.initial[s] = 0
        /\ c.kind[s] = "orthogonal" =>
              \A x \in Children(c, s) : CanOwnTransitions(c, x)                      \* W4
        /\ IF IsHistory(c, s)
             THEN /\ c.parent[s] # 0 /\ c.kind[c.parent[s]] = "compound"
                  /\ c.memory[s] \in Children(c, c.parent[s]) \ {s}                  \* W5
                  /\ ~IsHistory(c, c.memory[s])
             ELSE c.memory[s] = 0
        /\ c.kind[s] = "final" => c.parent[s] # 0 /\ c.kind[c.parent[s]] = "compound"
  /\ \A i \in DOMAIN c.trans : WFTransition(c, c.trans[i])

-----------------------------------------------------------------------------
(* Legal and stable configurations (property C02)                          *)
Legal(c, conf) ==
  /\ conf \subseteq States(c)
  /\ Root(c) \in conf
  /\ \A s \in conf : c.parent[s] # 0 => c.parent[s] \in conf
  /\ \A s \in conf :
        /\ c.kind[s] = "compound" =>
              LET k == Cardinality(Children(c, s) \cap conf)
              IN k = 1 \/ (k = 0 /\ c.initial[s] = 0)
        /\ c.kind[s] = "orthogonal" => Children(c, s) \subseteq conf
        /\ ~IsHistory(c, s)

(* nothing remains to be entered by default, no pending final/history *)
Stable(c, conf) ==
  /\ \A s \in conf : ~IsHistory(c, s)
  /\ \A s \in conf : ~(c.kind[s] = "final" /\ c.parent[s] = Root(c))
  /\ \A s \in conf : (c.kind[s] = "compound" /\ c.initial[s] # 0) => Children(c, s) \cap conf # {}
  /\ \A s \in conf : c.kind[s] = "orthogonal" => Children(c, s) \subseteq conf
=============================================================================
