------------------------------- MODULE Clock -------------------------------
(***************************************************************************)
(* sismic/clock/clock.py : SimulatedClock, against real time `now`.        *)
(*   base, acc (= _time), play, speed   -- the bookkeeping of the code     *)
(*   ideal                              -- ghost: what the documentation   *)
(*                                         says the clock must show        *)
(* One action per public operation, written as the code computes it; the   *)
(* property is  Value = ideal  plus monotonicity.  Integers only.          *)
(***************************************************************************)
EXTENDS Integers, Sequences, TLC, Json

CONSTANTS Speeds,      \* speeds that can be assigned (non-negative)
          Steps,       \* real-time increments
          Values,      \* values that can be assigned to .time
          MaxNow, MaxLen, EmitEdges

VARIABLES now, base, acc, play, speed, ideal, last, hist
vars == <<now, base, acc, play, speed, ideal, last, hist>>
View == <<now - base, acc, play, speed, ideal>>

Elapsed == IF play THEN (now - base) * speed ELSE 0
Value == acc + Elapsed

Obs(op, arg, before, after, exc) == [op |-> op, arg |-> arg, before |-> before, after |-> after, exc |-> exc]

Init ==
  /\ now = 0 /\ base = 0 /\ acc = 0 /\ play = FALSE /\ speed = 1 /\ ideal = 0
  /\ last = Obs("init", 0, 0, 0, "")
  /\ hist = <<>>

Start ==
  /\ IF play THEN UNCHANGED <<base, play>> ELSE base' = now /\ play' = TRUE
  /\ UNCHANGED <<now, acc, speed, ideal>>
  /\ last' = Obs("start", 0, Value, Value', "")
  /\ hist' = Append(hist, [op |-> "start", arg |-> 0])

Stop ==
  /\ IF play THEN acc' = acc + Elapsed /\ play' = FALSE ELSE UNCHANGED <<acc, play>>
  /\ UNCHANGED <<now, base, speed, ideal>>
  /\ last' = Obs("stop", 0, Value, Value', "")
  /\ hist' = Append(hist, [op |-> "stop", arg |-> 0])

SetSpeed(k) ==
  /\ acc' = acc + Elapsed
  /\ base' = now
  /\ speed' = k
  /\ UNCHANGED <<now, play, ideal>>
  /\ last' = Obs("speed", k, Value, Value', "")
  /\ hist' = Append(hist, [op |-> "speed", arg |-> k])

SetTime(v) ==
  /\ UNCHANGED <<now, play, speed>>
  /\ IF v < Value
       THEN /\ UNCHANGED <<acc, base, ideal>>
            /\ last' = Obs("set", v, Value, Value, "ValueError")
       ELSE /\ acc' = v /\ base' = now /\ ideal' = v
            /\ last' = Obs("set", v, Value, Value', "")
  /\ hist' = Append(hist, [op |-> "set", arg |-> v])

Pass(dt) ==
  /\ now' = now + dt
  /\ ideal' = ideal + (IF play THEN speed * dt ELSE 0)
  /\ UNCHANGED <<base, acc, play, speed>>
  /\ last' = Obs("pass", dt, Value, Value', "")
  /\ hist' = Append(hist, [op |-> "pass", arg |-> dt])

Next ==
  \/ Start \/ Stop
  \/ \E k \in Speeds : SetSpeed(k)
  \/ \E v \in Values : SetTime(v)
  \/ \E dt \in Steps : Pass(dt)

Spec == Init /\ [][Next]_vars

Bounded == now <= MaxNow /\ Len(hist) <= MaxLen
Emit == EmitEdges => PrintT(ToJson([hist |-> hist']))

-----------------------------------------------------------------------------
Faithful == Value = ideal
Monotonic == [][Value' >= Value]_vars
StandsStill == [][(~play /\ last'.op = "pass") => Value' = Value]_vars
ExactSet == [][(last'.op = "set" /\ last'.exc = "") => Value' = last'.arg]_vars
RejectedSet == [][(last'.op = "set" /\ last'.arg < Value) =>
                    (last'.exc = "ValueError" /\ Value' = Value)]_vars
Advances == [][(play /\ last'.op = "pass") => Value' = Value + speed * last'.arg]_vars
=============================================================================
