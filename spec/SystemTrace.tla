----------------------------- MODULE SystemTrace -----------------------------
(* Recorded runs of several real interpreters bound together, decided against System.tla: *)
(* C15 (what was delivered during each call = every sent internal event to every listener  *)
(* bound at that moment, in order) and the per-interpreter formulas of Props.tla, with the  *)
(* delivered events entering the ghost pending multiset of their target.                    *)
(* trace = [id, pi, lines : Seq(observation + who, deliv, a (bind target / detach index), chk)] *)
EXTENDS Semantics, Props, PairsData, Json, IOUtils

CONSTANTS N, K
Det == N + K + 1
Traces == JsonDeserialize(IOEnv.TRACE_FILE)
VARIABLES tid, l, GG, TT, binds, bad
tvars == <<tid, l, GG, TT, binds, bad>>
Tr1 == Traces[tid]
II == 1..N
ch(i) == Charts[Pairs[Tr1.pi][i]]

StOf(p) == [conf |-> Range(p.conf), final |-> p.final, time |-> p.time, x |-> p.x]
ToObs(L) ==
  [op |-> L.op, ev |-> L.ev, par |-> L.par, dl |-> L.dl,
   gv |-> L.gv, cfail |-> L.cfail, mfail |-> L.mfail, clk |-> L.clk,
   pre |-> StOf(L.pre), post |-> StOf(L.post),
   some |-> L.some, rtime |-> L.rtime, steps |-> L.steps,
   exc |-> L.exc, eobj |-> L.eobj, eidx |-> L.eidx, log |-> L.log,
   ign |-> L.ign, stale |-> L.stale, opq |-> L.opq,
   tp |-> [ent |-> Range(L.tp.ent), exi |-> Range(L.tp.exi), fir |-> Range(L.tp.fir), con |-> Range(L.tp.con), trs |-> Range(L.tp.trs)], hasl2 |-> L.hasl2, l2 |-> L.l2, mt |-> L.mt,
   ref |-> [rel |-> L.ref.rel, exc |-> L.ref.exc, some |-> L.ref.some, steps |-> L.ref.steps,
            log |-> L.ref.log, conf |-> Range(L.ref.conf), final |-> L.ref.final, x |-> L.ref.x]]

SentInternal(steps) ==
  SelectSeq(FlattenSeq([k \in DOMAIN steps |-> steps[k].sent]), LAMBDA e : e.k = "i")
RECURSIVE WalkListeners(_, _, _, _)
WalkListeners(L, k, e, acc) ==
  IF k > Len(L) THEN [L |-> L, deliv |-> acc]
  ELSE LET d == [to |-> L[k], ev |-> e.ev, par |-> e.par, dl |-> e.dl]
           L2 == IF L[k] = Det /\ k < Len(L) THEN RemoveAt(L, k + 1) ELSE L
       IN WalkListeners(L2, k + 1, e, Append(acc, d))
DeliverAll(steps, listeners) ==
  FoldLeft(LAMBDA acc, e : LET r == WalkListeners(acc.L, 1, e, acc.deliv) IN [L |-> r.L, deliv |-> r.deliv],
           [L |-> listeners, deliv |-> <<>>], SentInternal(steps))
ExpectedDeliv(steps, listeners) == DeliverAll(steps, listeners).deliv
ListenersAfter(steps, listeners) == DeliverAll(steps, listeners).L

TInit ==
  /\ tid \in DOMAIN Traces /\ l = 1 /\ bad = {}
  /\ GG = [i \in II |-> GhostInit(Charts[Pairs[Traces[tid].pi][i]])]
  /\ TT = [i \in II |-> 0]          \* last observed Interpreter.time of each interpreter
  /\ binds = [i \in II |-> <<>>]

TNext ==
  /\ l <= Len(Tr1.lines)
  /\ LET L == Tr1.lines[l]
         i == L.who
         o == ToObs(L)
         execop == L.op = "exec"
         want == IF execop THEN ExpectedDeliv(L.steps, binds[i]) ELSE <<>>
         c15 == (IF L.deliv = want THEN {} ELSE {<<"C15", "delivered">>})
         g1 == [GG EXCEPT ![i] = GhostUpdate(ch(i), @, o)]
         tt1 == [TT EXCEPT ![i] = L.post.time]
         g2 == FoldLeft(LAMBDA acc, d :
                   IF d.to \in II
                     THEN [acc EXCEPT ![d.to].pend = Append(@, PEntry("e", tt1[d.to] + d.dl, d.ev, d.par))]
                     ELSE acc, g1, L.deliv)
     IN /\ bad' = bad \cup (IF L.chk = 1 THEN {<<l, b[1], b[2]>> : b \in Bad(ch(i), GG[i], o) \cup c15} ELSE {})
        /\ GG' = g2
        /\ TT' = tt1
        /\ binds' = CASE L.op = "bind" -> [binds EXCEPT ![i] = Append(@, L.a)]
                      [] L.op = "detach" -> [binds EXCEPT ![i] = RemoveAt(@, L.a)]
                      [] L.op = "exec" -> [binds EXCEPT ![i] = ListenersAfter(L.steps, @)]
                      [] OTHER -> binds
  /\ l' = l + 1
  /\ UNCHANGED tid

TSpec == TInit /\ [][TNext]_tvars
Report == (l = Len(Tr1.lines) + 1) =>
            PrintT(ToJson([id |-> Tr1.id, lines |-> Len(Tr1.lines), bad |-> SetToSeq(bad)]))
=============================================================================
