------------------------------- MODULE System -------------------------------
(***************************************************************************)
(* Several interpreters and callables bound together (Interpreter.bind /   *)
(* detach, sismic/interpreter/listener.py InternalEventListener).          *)
(*   II = 1..N interpreters (chart pair chosen in Init), targets N+1..N+K  *)
(*   are callables ("inboxes").                                            *)
(*   lst[i]  : listeners of interpreter i in binding order (target ids)    *)
(* Exec(i) applies Semantics!MacroStep to interpreter i and delivers every *)
(* internal event it sent, in sending order, to each listener in binding   *)
(* order: a bound interpreter j gets it on its EXTERNAL queue (due = its   *)
(* own time + delay), a callable gets it appended to its inbox.            *)
(* The observation of a call is the usual one (Props.tla) plus             *)
(*   who   : the interpreter that was called                               *)
(*   deliv : Seq([to, ev, par, dl]) what was delivered during the call     *)
(***************************************************************************)
EXTENDS Semantics, Props, PairsData, Json

CONSTANTS N, K, MaxQ, MaxLevel, MaxBind, EmitEdges
VARIABLES pi, SS, clks, GG, lst, last, hist
vars == <<pi, SS, clks, GG, lst, last, hist>>
View == <<pi, SS, clks, GG, lst>>

II == 1..N
Det == N + K + 1          \* a callable that, on every event it receives, detaches the listener bound right after it
Targets == 1..(N + K + 1)
ch(i) == Charts[Pairs[pi][i]]
OptS == [ignore |-> FALSE, metas |-> TRUE]

St(s) == [conf |-> s.conf, final |-> Final(s), time |-> s.time, x |-> s.x]
NoOrc == [gv |-> <<>>, cfail |-> 0, mfail |-> 0]
NoA == [exc |-> "", eobj |-> 0, eidx |-> 0, steps |-> <<>>, log |-> <<>>]

Obs(op, i, ev, par, dl, orc, clk0, s0, s1, A, deliv, binds) ==
  [op |-> op, who |-> i, ev |-> ev, par |-> par, dl |-> dl, ign |-> FALSE, hasl2 |-> TRUE, stale |-> 0, opq |-> FALSE, tp |-> TpOf(IF A.exc = "" THEN A.steps ELSE <<>>),
   l2 |-> MetasL(A.log), mt |-> <<>>, ref |-> NoRef,
   gv |-> orc.gv, cfail |-> 0, mfail |-> 0, clk |-> clk0,
   pre |-> St(s0), post |-> St(s1),
   some |-> A.exc = "" /\ A.steps # <<>>, rtime |-> s1.time,
   steps |-> IF A.exc = "" THEN A.steps ELSE <<>>,
   exc |-> A.exc, eobj |-> A.eobj, eidx |-> A.eidx, log |-> A.log,
   deliv |-> deliv, binds |-> binds]

(* the internal events a macro step sent, in sending order *)
SentInternal(steps) ==
  SelectSeq(FlattenSeq([k \in DOMAIN steps |-> steps[k].sent]), LAMBDA e : e.k = "i")

(* C15: every sent internal event, in sending order, to every listener bound AT THAT MOMENT, in   *)
(* binding order.  "At that moment" matters when a listener detaches another one while it is being *)
(* notified (the callable Det): nothing is delivered after detach, not even the current event.     *)
RECURSIVE WalkListeners(_, _, _, _)
WalkListeners(L, k, e, acc) ==
  IF k > Len(L) THEN [L |-> L, deliv |-> acc]
  ELSE LET d == [to |-> L[k], ev |-> e.ev, par |-> e.par, dl |-> e.dl]
           L2 == IF L[k] = Det /\ k < Len(L) THEN RemoveAt(L, k + 1) ELSE L
       IN WalkListeners(L2, k + 1, e, Append(acc, d))

DeliverAll(steps, listeners) ==
  FoldLeft(LAMBDA acc, e : LET r == WalkListeners(acc.L, 1, e, acc.deliv) IN [L |-> r.L, deliv |-> r.deliv],
           [L |-> listeners, deliv |-> <<>>], SentInternal(steps))

ExpectedDeliv(steps, listeners) == DeliverAll(steps, listeners).deliv
ListenersAfter(steps, listeners) == DeliverAll(steps, listeners).L

C15_delivered(o) == o.op = "exec" => o.deliv = ExpectedDeliv(o.steps, o.binds)
C15_only_exec(o) == o.op # "exec" => o.deliv = <<>>

Init ==
  /\ pi \in DOMAIN Pairs
  /\ SS = [i \in II |-> InitState(Charts[Pairs[pi][i]])]
  /\ clks = [i \in II |-> 0]
  /\ GG = [i \in II |-> GhostInit(Charts[Pairs[pi][i]])]
  /\ lst = [i \in II |-> <<>>]
  /\ last = Obs("none", 1, 0, 0, 0, NoOrc, 0, SS[1], SS[1], NoA, <<>>, <<>>)
  /\ hist = <<>>

H(op, i, a, b, cc, gv) == [op |-> op, i |-> i, a |-> a, b |-> b, c |-> cc,
                           gv |-> [k \in DOMAIN gv |-> IF gv[k] THEN 1 ELSE 0]]

Bind(i, t) ==
  /\ Len(lst[i]) < MaxBind
  /\ lst' = [lst EXCEPT ![i] = Append(@, t)]
  /\ last' = Obs("bind", i, t, 0, 0, NoOrc, clks[i], SS[i], SS[i], NoA, <<>>, lst[i])
  /\ hist' = Append(hist, H("bind", i, t, 0, 0, <<>>))
  /\ UNCHANGED <<pi, SS, clks, GG>>

Detach(i, k) ==
  /\ k \in DOMAIN lst[i]
  /\ lst' = [lst EXCEPT ![i] = RemoveAt(@, k)]
  /\ last' = Obs("detach", i, k, 0, 0, NoOrc, clks[i], SS[i], SS[i], NoA, <<>>, lst[i])
  /\ hist' = Append(hist, H("detach", i, k, 0, 0, <<>>))
  /\ UNCHANGED <<pi, SS, clks, GG>>

Queue(i, e, par, dl) ==
  /\ Len(SS[i].eq) < MaxQ
  /\ LET S1 == QueueExternal(SS[i], e, par, dl)
         o == Obs("queue", i, e, par, dl, NoOrc, clks[i], SS[i], S1, NoA, <<>>, lst[i])
     IN /\ SS' = [SS EXCEPT ![i] = S1]
        /\ last' = o
        /\ GG' = [GG EXCEPT ![i] = GhostUpdate(ch(i), @, o)]
  /\ hist' = Append(hist, H("queue", i, e, par, dl, <<>>))
  /\ UNCHANGED <<pi, clks, lst>>

Advance(i, d) ==
  /\ clks' = [clks EXCEPT ![i] = @ + d]
  /\ last' = Obs("adv", i, 0, 0, 0, NoOrc, clks[i], SS[i], SS[i], NoA, <<>>, lst[i])
  /\ hist' = Append(hist, H("adv", i, d, 0, 0, <<>>))
  /\ UNCHANGED <<pi, SS, GG, lst>>

(* deliver one event to one target *)
DeliverTo(ss, t, e) ==
  IF t \in II THEN [ss EXCEPT ![t].eq = Enqueue(@, QEntry(ss[t].time + e.dl, e.ev, e.par, e.dl))] ELSE ss
GhostDeliver(gg, ss, t, e) ==
  IF t \in II THEN [gg EXCEPT ![t].pend = Append(@, PEntry("e", ss[t].time + e.dl, e.ev, e.par))] ELSE gg

Exec(i, gv) ==
  LET orc == [gv |-> gv, cfail |-> 0, mfail |-> 0]
      A == MacroStep(ch(i), OptS, orc, SS[i], clks[i])
      dv == ExpectedDeliv(IF A.exc = "" THEN A.steps ELSE <<>>, lst[i])
      ss1 == [SS EXCEPT ![i] = A.S]
      ss2 == FoldLeft(LAMBDA acc, d : DeliverTo(acc, d.to, d), ss1, dv)
      o == Obs("exec", i, 0, 0, 0, orc, clks[i], SS[i], A.S, A, dv, lst[i])
      gg1 == [GG EXCEPT ![i] = GhostUpdate(ch(i), @, o)]
      gg2 == FoldLeft(LAMBDA acc, d : GhostDeliver(acc, ss1, d.to, d), gg1, dv)
  IN /\ A.exc \notin {"PreconditionError", "PostconditionError", "InvariantError", "PropertyStatechartError"}
     /\ SS' = ss2
     /\ clks' = [clks EXCEPT ![i] = A.clk]
     /\ GG' = gg2
     /\ last' = o
     /\ hist' = Append(hist, H("exec", i, 0, 0, 0, gv))
     /\ lst' = [lst EXCEPT ![i] = ListenersAfter(IF A.exc = "" THEN A.steps ELSE <<>>, lst[i])]
     /\ UNCHANGED pi

OracleIdx(i) == {k \in DOMAIN ch(i).trans : ch(i).trans[k].gk = "oracle"}
GVs(i) == {[k \in DOMAIN ch(i).trans |-> IF k \in OracleIdx(i) THEN f[k] ELSE FALSE] : f \in [OracleIdx(i) -> BOOLEAN]}

Next ==
  \/ \E i \in II, t \in Targets : Bind(i, t)
  \/ \E i \in II, k \in 1..MaxBind : Detach(i, k)
  \/ \E i \in II : \E e \in Range(ch(i).events), dl \in {0, 1} : Queue(i, e, 0, dl)
  \/ \E i \in II : Advance(i, 1)
  \/ \E i \in II : \E gv \in GVs(i) : Exec(i, gv)

Spec == Init /\ [][Next]_vars
Bounded == Len(hist) <= MaxLevel /\ \A i \in II : clks[i] <= 2
Emit == EmitEdges => PrintT(ToJson([pi |-> pi, hist |-> hist']))

(* C15 on every edge, and the per-interpreter formulas of Props.tla on the acting interpreter *)
P_C15 == [][C15_delivered(last') /\ C15_only_exec(last')]_vars
P_Interp == [][Bad(ch(last'.who), GG[last'.who], last') = {}]_vars
=============================================================================
