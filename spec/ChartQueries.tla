---------------------------- MODULE ChartQueries ----------------------------
(* The structural queries of sismic.model.Statechart against the operators of Chart.tla   *)
(* (the anchors "tree queries" of C02: every other formula is built on them).              *)
(* lines : [ci, anc, desc, depth, kids, lca, leaves, events]  as answered by the real code *)
(*   anc[s]   ancestors_for(s)      (ordered, deepest first)                               *)
(*   desc[s]  descendants_for(s)    (as a set)            depth[s]  depth_for(s)           *)
(*   kids[s]  children_for(s)       (as a set)            lca[a][b] least_common_ancestor  *)
(*   leaves   list of [set, leaf_for(set)] samples        events    events_for()           *)
EXTENDS Chart, ChartsData, Json, IOUtils, TLC

Lines == JsonDeserialize(IOEnv.TRACE_FILE)
VARIABLE l

Clauses(L) ==
  LET c == Charts[L.ci] IN
  (IF \A s \in States(c) : AncSeq(c, s) = L.anc[s] THEN {} ELSE {"ancestors_for"})
  \cup (IF \A s \in States(c) : Descendants(c, s) = Range(L.desc[s]) THEN {} ELSE {"descendants_for"})
  \cup (IF \A s \in States(c) : Depth(c, s) = L.depth[s] THEN {} ELSE {"depth_for"})
  \cup (IF \A s \in States(c) : Children(c, s) = Range(L.kids[s]) THEN {} ELSE {"children_for"})
  \cup (IF \A a, b \in States(c) : LCA(c, a, b) = L.lca[a][b] THEN {} ELSE {"least_common_ancestor"})
  \cup (IF \A k \in DOMAIN L.leaves : Leaves(c, Range(L.leaves[k][1])) = Range(L.leaves[k][2])
          THEN {} ELSE {"leaf_for"})
  \cup (IF EventsOf(c) = Range(L.events) THEN {} ELSE {"events_for"})
  \cup (IF Root(c) = L.root THEN {} ELSE {"root"})

TInit == l \in DOMAIN Lines
TNext == FALSE /\ l' = l
TSpec == TInit /\ [][TNext]_l
Report == PrintT(ToJson([id |-> Lines[l].id, bad |-> SetToSeq(Clauses(Lines[l]))]))
=============================================================================
