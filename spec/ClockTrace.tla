----------------------------- MODULE ClockTrace -----------------------------
(***************************************************************************)
(* Recorded operation sequences of the real SimulatedClock (scripted real  *)
(* time source), evaluated against the declarative reading of C14.         *)
(* Trace file: JSON array of [id, lines : Seq([op, arg, before, after,     *)
(* exc])].  Ghost: ideal value, playing flag, speed -- computed from the   *)
(* recorded OPERATIONS only, never from the clock's own fields.            *)
(***************************************************************************)
EXTENDS Integers, Sequences, TLC, Json, IOUtils, FiniteSets, SequencesExt

Traces == JsonDeserialize(IOEnv.TRACE_FILE)

VARIABLES tid, l, ideal, gplay, gspeed, bad
tvars == <<tid, l, ideal, gplay, gspeed, bad>>

Tr == Traces[tid]

TInit == /\ tid \in DOMAIN Traces /\ l = 1 /\ ideal = 0 /\ gplay = FALSE /\ gspeed = 1 /\ bad = {}

Expect(L) ==
  CASE L.op = "pass"  -> ideal + (IF gplay THEN gspeed * L.arg ELSE 0)
    [] L.op = "set"   -> IF L.arg < ideal THEN ideal ELSE L.arg
    [] OTHER          -> ideal

Clauses(L) ==
  (IF L.after = Expect(L) THEN {} ELSE {"faithful"})
  \cup (IF L.after >= L.before THEN {} ELSE {"monotonic"})
  \cup (IF L.before = ideal THEN {} ELSE {"before"})
  \cup (IF L.op = "set" /\ L.arg < ideal /\ ~(L.exc = "ValueError" /\ L.after = L.before)
          THEN {"rejectedset"} ELSE {})
  \cup (IF L.op = "set" /\ L.arg >= ideal /\ ~(L.exc = "" /\ L.after = L.arg)
          THEN {"exactset"} ELSE {})
  \cup (IF L.op # "set" /\ L.exc # "" THEN {"noerror"} ELSE {})
  \cup (IF L.op = "pass" /\ ~gplay /\ L.after # L.before THEN {"standsstill"} ELSE {})

TNext ==
  /\ l <= Len(Tr.lines)
  /\ LET L == Tr.lines[l] IN
       /\ bad' = bad \cup {<<l, x>> : x \in Clauses(L)}
       /\ ideal' = Expect(L)
       /\ gplay' = (CASE L.op = "start" -> TRUE [] L.op = "stop" -> FALSE [] OTHER -> gplay)
       /\ gspeed' = (IF L.op = "speed" THEN L.arg ELSE gspeed)
  /\ l' = l + 1
  /\ UNCHANGED tid

TSpec == TInit /\ [][TNext]_tvars

Report == (l = Len(Tr.lines) + 1) =>
            PrintT(ToJson([id |-> Tr.id, lines |-> Len(Tr.lines), bad |-> SetToSeq(bad)]))
=============================================================================
