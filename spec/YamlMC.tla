------------------------------- MODULE YamlMC -------------------------------
(* Fault enumeration inside the model (C12): start from the export of every *)
(* valid chart of the family, inject up to MaxFaults faults of the listed   *)
(* kinds at every position, and check  Accepts(doc) <=> DocSound(doc).      *)
(* Also the structural round trip (C11) on the unfaulted documents.         *)
EXTENDS Yaml, ChartsData, Json

CONSTANTS MaxFaults, EmitEdges
VARIABLES ci, doc, faults
vars == <<ci, doc, faults>>

UnkName == 9
BlankTgt == 0 - 1          \* rendered as  target: ''
PadBase == 0 - 100         \* PadBase - n rendered as  target: ' n<n> '  (blanks around an existing name)

Init == ci \in DOMAIN Charts /\ doc = Export(Charts[ci]) /\ faults = <<>>

Set(i, f, v) == doc' = [doc EXCEPT !.nodes[i] = [@ EXCEPT ![f] = v]]
Names == {doc.nodes[i].name : i \in Idx(doc)} \ {0}
IsHist(i) == doc.nodes[i].type \in {"shallow history", "deep history"}
DKids(i) == {j \in Idx(doc) : doc.nodes[j].up = i}

Fault(name, i, k) == faults' = Append(faults, <<name, i, k>>) /\ UNCHANGED ci

Next ==
  /\ Len(faults) < MaxFaults
  /\ \/ \E i, j \in Idx(doc) : i # j /\ doc.nodes[i].name # doc.nodes[j].name
                               /\ Set(i, "name", doc.nodes[j].name) /\ Fault("dupname", i, j)
     \/ \E i \in Idx(doc) : doc.nodes[i].type # "" /\ doc.nodes[i].type \in Types
           /\ Set(i, "trans", Append(doc.nodes[i].trans, DTr(0, 1, 0))) /\ Fault("trans_on_nonowner", i, 0)
     \/ \E i \in Idx(doc) : doc.nodes[i].type = ""
           /\ Set(i, "trans", Append(doc.nodes[i].trans, DTr(UnkName, 1, 0))) /\ Fault("unknown_target", i, 0)
     \/ \E i \in Idx(doc) : \E k \in DOMAIN doc.nodes[i].trans :
           doc' = [doc EXCEPT !.nodes[i].trans[k].tgt = UnkName] /\ Fault("retarget_unknown", i, k)
     \* a target that is empty, or an existing name with blanks around it, is not an existing state
     \/ \E i \in Idx(doc) : \E k \in DOMAIN doc.nodes[i].trans : \E v \in {BlankTgt} \cup {PadBase - n : n \in Names} :
           doc' = [doc EXCEPT !.nodes[i].trans[k].tgt = v] /\ Fault("target_blank_or_padded", i, k)
     \/ \E i \in Idx(doc) : IsHist(i) /\ i # 1
           /\ doc' = [doc EXCEPT !.nodes = [j \in Idx(doc) |->
                        IF doc.nodes[j].up = doc.nodes[i].up THEN [doc.nodes[j] EXCEPT !.sec = "p"]
                        ELSE doc.nodes[j]]]
           /\ Fault("history_under_orthogonal", i, 0)
     \/ \E t \in {"shallow history", "deep history"} : doc.nodes[1].type = ""
           /\ Set(1, "type", t) /\ Fault("history_root", 1, 0)
     \/ \E i \in Idx(doc) : ListOf(doc, i, "s") # {}
           /\ \E v \in (Names \cup {UnkName}) \ {doc.nodes[j].name : j \in ListOf(doc, i, "s")} :
                 Set(i, "initial", v) /\ Fault("initial_not_child", i, v)
     \/ \E i \in Idx(doc) : IsHist(i) /\ i # 1
           /\ \E v \in ((Names \cup {UnkName}) \ {doc.nodes[j].name : j \in ListOf(doc, doc.nodes[i].up, doc.nodes[i].sec)})
                       \cup {doc.nodes[i].name} :
                 Set(i, "memory", v) /\ Fault("memory_not_sibling", i, v)
     \/ \E i \in Idx(doc) : ~doc.nodes[i].extra /\ Set(i, "extra", TRUE) /\ Fault("unknown_key_state", i, 0)
     \/ \E i \in Idx(doc) : \E k \in DOMAIN doc.nodes[i].trans :
           doc' = [doc EXCEPT !.nodes[i].trans[k].extra = TRUE] /\ Fault("unknown_key_transition", i, k)
     \/ ~doc.extra /\ doc' = [doc EXCEPT !.extra = TRUE] /\ Fault("unknown_key_top", 0, 0)
     \/ \E i \in Idx(doc) : DKids(i) = {} /\ doc.nodes[i].type \in Types
           /\ Set(i, "type", "weird") /\ Fault("unknown_type", i, 0)
     \/ \E i \in Idx(doc) : \E k \in DOMAIN doc.nodes[i].trans : \E p \in {Bogus, Hi, Lo, 7, -3} :
           doc.nodes[i].trans[k].prio # p
           /\ doc' = [doc EXCEPT !.nodes[i].trans[k].prio = p]
           /\ Fault(IF p = Bogus THEN "unknown_priority" ELSE "valid_priority", i, k)
     \/ \E i \in Idx(doc) : \E j \in DKids(i) : Cardinality(DKids(i)) >= 2
           /\ \A x \in DKids(i) : doc.nodes[x].sec = doc.nodes[j].sec
           /\ Set(j, "sec", IF doc.nodes[j].sec = "s" THEN "p" ELSE "s") /\ Fault("both_lists", i, j)
     \/ \E i \in Idx(doc) : doc.nodes[i].name # 0 /\ Set(i, "name", 0) /\ Fault("missing_name", i, 0)
     \/ doc.hasName /\ doc' = [doc EXCEPT !.hasName = FALSE] /\ Fault("missing_statechart_name", 0, 0)
     \/ doc.hasRoot /\ doc' = [doc EXCEPT !.hasRoot = FALSE] /\ Fault("missing_root_state", 0, 0)
     \/ \E i \in Idx(doc) : doc.nodes[i].initial # 0 /\ Set(i, "initial", 0) /\ Fault("valid_drop_initial", i, 0)
     \/ \E i \in Idx(doc) : doc.nodes[i].memory # 0 /\ Set(i, "memory", 0) /\ Fault("valid_drop_memory", i, 0)

Spec == Init /\ [][Next]_vars
View == <<ci, doc>>
Emit == EmitEdges => PrintT(ToJson([ci |-> ci, doc |-> doc', faults |-> faults']))

AcceptsIffSound == Accepts(doc) <=> DocSound(doc)
AcceptedIsSound == Accepts(doc) => Sound(Import(doc))
RoundTrips == faults = <<>> => RoundTrip(Charts[ci])
=============================================================================
