-------------------------------- MODULE Bdd --------------------------------
(***************************************************************************)
(* sismic/bdd : the predefined given / when / then steps and the hooks of  *)
(* sismic/bdd/environment.py, over the interpreter model of Semantics.tla. *)
(*                                                                         *)
(* A scenario is a sequence of steps                                       *)
(*   [kw ("given"|"when"|"then"), kind, a, b, n]                           *)
(* kinds of given/when steps: "send" (event a, parameter v=b; b=0 none),   *)
(*   "wait" (a seconds), "nothing", "repeat" (n times: send event a),      *)
(*   "sendl" (event a with the list literal v=[0]*b: a mutable payload),   *)
(*   "reproduce" (the given/when steps of the library scenario Lib, run     *)
(*   with the current keyword)                                             *)
(* kinds of then steps: "entered" "not_entered" "exited" "not_exited"      *)
(*   "active" "not_active" (state a), "fired" (event a [with v=b])         *)
(*   "not_fired" (event a), "no_event", "var_eq" "var_neq" (x vs a),       *)
(*   "w_eq" "w_neq" (the list variable w, always [0]*x, vs the literal     *)
(*   [0]*a: every step evaluates its own literal, whatever a statechart    *)
(*   did to the payload of an earlier step),                               *)
(*   "expr_holds" "expr_not_holds" (expression  x == a), "final"           *)
(*   "not_final"                                                           *)
(* Truth(step) is what the documented meaning of the step says about the   *)
(* execution; the real verdict of behave must be "passed" iff Truth.       *)
(***************************************************************************)
EXTENDS Semantics

OptB == [ignore |-> FALSE, metas |-> FALSE]
Orc0(c) == [gv |-> [i \in DOMAIN c.trans |-> FALSE], cfail |-> 0, mfail |-> 0]

(* Interpreter.execute(): execute_once until it returns None; `fuel` bounds non-quiescent charts *)
RECURSIVE RunAll(_, _, _, _, _)
RunAll(c, S, clk, acc, fuel) ==
  IF fuel = 0 THEN [S |-> S, clk |-> clk, steps |-> acc, quiet |-> FALSE]
  ELSE LET A == MacroStep(c, OptB, Orc0(c), S, clk)
       IN IF A.exc # "" THEN [S |-> A.S, clk |-> A.clk, steps |-> acc, quiet |-> FALSE]
          ELSE IF A.steps = <<>> THEN [S |-> A.S, clk |-> A.clk, steps |-> acc, quiet |-> TRUE]
          ELSE RunAll(c, A.S, A.clk, Append(acc, A.steps), fuel - 1)

(* what the then-steps look at in one macro step *)
EnteredOf(ms) == UNION {Range(ms[k].entered) : k \in DOMAIN ms}
ExitedOf(ms) == UNION {Range(ms[k].exited) : k \in DOMAIN ms}
SentOf2(ms) == FlattenSeq([k \in DOMAIN ms |-> ms[k].sent])

(* B = [S, clk, mon (monitoring), has (a when-block exists), trace (monitored macro steps)] *)
BInit(c) == [S |-> InitState(c), clk |-> 0, mon |-> FALSE, has |-> FALSE, trace |-> <<>>]

RECURSIVE Sends(_, _, _, _)
Sends(S, ev, par, n) == IF n = 0 THEN S ELSE Sends(QueueExternal(S, ev, par, 0), ev, par, n - 1)

(* a given/when step: the action, then the after_step hook (execute; when: monitored) *)
ActStep1(c, B, st) ==
  LET S1 == CASE st.kind = "send" -> QueueExternal(B.S, st.a, st.b, 0)
              [] st.kind = "sendl" -> QueueExternal(B.S, st.a, 0, 0)
              [] st.kind = "repeat" -> Sends(B.S, st.a, 0, st.n)
              [] OTHER -> B.S
      clk1 == IF st.kind = "wait" THEN B.clk + st.a ELSE B.clk
      r == RunAll(c, S1, clk1, <<>>, 12)
  IN IF st.kw = "given"
       THEN [B EXCEPT !.S = r.S, !.clk = r.clk]
       ELSE [S |-> r.S, clk |-> r.clk, mon |-> TRUE, has |-> TRUE,
             trace |-> (IF B.mon THEN B.trace ELSE <<>>) \o r.steps]

(* the library scenario that "I reproduce" refers to: its given/when steps, in order *)
Lib == << [kind |-> "send", a |-> 1, b |-> 0, n |-> 0], [kind |-> "wait", a |-> 1, b |-> 0, n |-> 0],
          [kind |-> "send", a |-> 2, b |-> 7, n |-> 0] >>

ActStep(c, B, st) ==
  IF st.kind = "reproduce"
    THEN FoldLeft(LAMBDA acc, ls : ActStep1(c, acc, [kw |-> st.kw] @@ ls), B, Lib)
    ELSE ActStep1(c, B, st)

(* event parameters: 0 = none, 7 = (v=7), 8 = (v=7, u=1).  "Only the parameters that are provided are compared":  *)
(* an assertion with parameters p matches a sent event with parameters q iff p is a sub-record of q.              *)
ParMatch(p, q) == p = 0 \/ (p = 7 /\ q \in {7, 8}) \/ (p = 8 /\ q = 8)

(* documented meaning of a then step *)
Truth(c, B, st) ==
  LET tr == B.trace
      anyk(P(_)) == \E k \in DOMAIN tr : P(tr[k])
      sent == FlattenSeq([k \in DOMAIN tr |-> SentOf2(tr[k])])
      fired(e, p) == \E j \in DOMAIN sent : sent[j].ev = e /\ ParMatch(p, sent[j].par)
  IN CASE st.kind = "entered"        -> anyk(LAMBDA ms : st.a \in EnteredOf(ms))
       [] st.kind = "not_entered"    -> ~anyk(LAMBDA ms : st.a \in EnteredOf(ms))
       [] st.kind = "exited"         -> anyk(LAMBDA ms : st.a \in ExitedOf(ms))
       [] st.kind = "not_exited"     -> ~anyk(LAMBDA ms : st.a \in ExitedOf(ms))
       [] st.kind = "active"         -> st.a \in B.S.conf
       [] st.kind = "not_active"     -> st.a \notin B.S.conf
       [] st.kind = "fired"          -> fired(st.a, st.b)
       [] st.kind = "not_fired"      -> ~fired(st.a, 0)
       [] st.kind = "no_event"       -> sent = <<>>
       [] st.kind = "var_eq"         -> B.S.x = st.a
       [] st.kind = "var_neq"        -> B.S.x # st.a
       [] st.kind = "w_eq"           -> B.S.x = st.a
       [] st.kind = "w_neq"          -> B.S.x # st.a
       [] st.kind = "expr_holds"     -> B.S.x = st.a
       [] st.kind = "expr_not_holds" -> B.S.x # st.a
       [] st.kind = "final"          -> Final(B.S)
       [] st.kind = "not_final"      -> ~Final(B.S)

(* a then step: before_step stops the monitoring; a then without any when block is an error *)
ThenStep(c, B, st) ==
  [B |-> [B EXCEPT !.mon = FALSE], pass |-> B.has /\ Truth(c, B, st)]

Apply1(c, B, st) == IF st.kw = "then" THEN ThenStep(c, B, st) ELSE [B |-> ActStep(c, B, st), pass |-> TRUE]
=============================================================================
