------------------------------- MODULE Runner -------------------------------
(***************************************************************************)
(* sismic/runner/runner.py : AsyncRunner, one runner thread against one    *)
(* client thread, at the granularity of the points where a thread switch   *)
(* matters (harness/sched.py parks the real threads at exactly these       *)
(* points, so a behaviour of this module IS a schedule of the real code).  *)
(*                                                                         *)
(* A thread is always PARKED AT a label; one step = the code from that     *)
(* label to the next one.                                                  *)
(*                                                                         *)
(* Runner thread (AsyncRunner._run):                                       *)
(*   before_run -> wait -> [final?] test_stop -> before_execute -> clock   *)
(*   -> (peek -> (pop)) -> [clock ... if execute_all] -> after_execute ->  *)
(*   sleep -> wait -> ... -> stop_set -> after_run -> done                 *)
(*   clock : Interpreter.execute_once samples the clock                    *)
(*   peek  : _select_event() : which event is due (head of the queue)      *)
(*   pop   : _select_event(consume=True) : pops the CURRENT head           *)
(* Client thread: a script of queue(e, d) / pause / unpause / advance(d) / *)
(*   stop, with queue split at q_bisect (due time computed, position not   *)
(*   yet) and q_insert (position computed, not yet inserted); stop =       *)
(*   set_stop, set_unpaused, join.                                         *)
(*                                                                         *)
(* The interpreter is abstracted to: initialised?, its time, its external  *)
(* queue of (due, id), "final once event Fin is consumed".                 *)
(***************************************************************************)
EXTENDS Integers, Sequences, FiniteSets, SequencesExt, TLC, Json

CONSTANTS Scripts,      \* set of client scripts: Seq of operations [op, ev, d]
          ExecAlls,     \* values of AsyncRunner(execute_all=...) to explore
          Fin,          \* id of the event that makes the statechart final (0 = none)
          MaxCycles,    \* bound on runner cycles (before_execute calls)
          EmitEdges

VARIABLES Script, ExecuteAll,     \* chosen in Init, never change
          rpc, cpc, ck,           \* runner label; client label; index of the client's current operation
          unpaused, stopf,        \* the two threading.Event flags
          clk, itime, inited, final, q,   \* clock, interpreter time, initialised, final, external queue
          plan, qdue, qpos,       \* runner: event peeked; client: due time / position computed by queue()
          cyc,                    \* steps returned so far in the current execute() call
          executed, reported,     \* history: macro steps executed / handed to after_execute (per call)
          consumed, queued,       \* history: ids popped / ids whose queue() call completed
          nbefore, nafter,        \* history: before_run / after_run calls
          ncycles, pausedAt, cyclesAfterPause,  \* history for the pause clause
          raced,                  \* ghost: a queue race happened (classifier of known finding D11)
          lastev,                 \* ghost: what the last step did (for the trace relation)
          hist
hvars == <<executed, reported, consumed, queued, nbefore, nafter, ncycles, pausedAt, cyclesAfterPause, raced, lastev>>
svars == <<Script, ExecuteAll, rpc, cpc, ck, unpaused, stopf, clk, itime, inited, final, q, plan, qdue, qpos, cyc>>
vars == <<svars, hvars, hist>>
View == <<svars, hvars>>

Entry(due, id) == [due |-> due, id |-> id]
Step(ev, popped) == [ev |-> ev, popped |-> popped]

(* a script without a "start" operation begins after start() (flags set, thread parked at before_run);  *)
(* one with "start" begins with a fresh AsyncRunner: no thread yet ("idle"), both flags clear           *)
HasStart(sc) == \E i \in DOMAIN sc : sc[i].op = "start"
InitRest ==
  /\ rpc = (IF HasStart(Script) THEN "idle" ELSE "before_run") /\ cpc = "op" /\ ck = 1
  /\ unpaused = ~HasStart(Script) /\ stopf = FALSE
  /\ clk = 0 /\ itime = 0 /\ inited = FALSE /\ final = FALSE /\ q = <<>>
  /\ plan = 0 /\ qdue = 0 /\ qpos = 0 /\ cyc = <<>>
  /\ executed = <<>> /\ reported = <<>> /\ consumed = <<>> /\ queued = {}
  /\ nbefore = 0 /\ nafter = 0 /\ ncycles = 0 /\ pausedAt = -1 /\ cyclesAfterPause = 0
  /\ raced = FALSE /\ lastev = "" /\ hist = <<>>

Init == Script \in Scripts /\ ExecuteAll \in ExecAlls /\ InitRest

Log(t) == hist' = IF EmitEdges THEN Append(hist, t) ELSE hist

-----------------------------------------------------------------------------
(* Runner thread *)
EndExecute ==   \* execute() returns: after_execute is entered
  rpc' = "after_execute"

RBeforeRun ==
  /\ rpc = "before_run"
  /\ nbefore' = nbefore + 1 /\ rpc' = "wait" /\ lastev' = "before_run"
  /\ UNCHANGED <<Script, ExecuteAll, cpc, ck, unpaused, stopf, clk, itime, inited, final, q, plan, qdue, qpos, cyc,
                 executed, reported, consumed, queued, nafter, ncycles, pausedAt, cyclesAfterPause, raced>>

RWait ==        \* Event.wait() returns only when the flag is set; then the loop condition is evaluated
  /\ rpc = "wait" /\ unpaused
  /\ rpc' = IF final THEN "stop_set" ELSE "test_stop"
  /\ stopf' = (stopf \/ final)
  /\ lastev' = "wait"
  /\ UNCHANGED <<Script, ExecuteAll, cpc, ck, unpaused, clk, itime, inited, final, q, plan, qdue, qpos, cyc,
                 executed, reported, consumed, queued, nbefore, nafter, ncycles, pausedAt, cyclesAfterPause, raced>>

RTestStop ==
  /\ rpc = "test_stop"
  /\ rpc' = IF stopf THEN "stop_set" ELSE "before_execute"
  /\ lastev' = "test_stop"
  /\ UNCHANGED <<Script, ExecuteAll, cpc, ck, unpaused, stopf, clk, itime, inited, final, q, plan, qdue, qpos, cyc,
                 executed, reported, consumed, queued, nbefore, nafter, ncycles, pausedAt, cyclesAfterPause, raced>>

RBeforeExecute ==
  /\ rpc = "before_execute"
  /\ rpc' = "clock" /\ cyc' = <<>> /\ ncycles' = ncycles + 1
  /\ cyclesAfterPause' = IF pausedAt >= 0 THEN cyclesAfterPause + 1 ELSE cyclesAfterPause
  /\ lastev' = "before_execute"
  /\ UNCHANGED <<Script, ExecuteAll, cpc, ck, unpaused, stopf, clk, itime, inited, final, q, plan, qdue, qpos,
                 executed, reported, consumed, queued, nbefore, nafter, pausedAt, raced>>

RClock ==       \* execute_once: self._time = self.clock.time ; the initialisation step needs no event
  /\ rpc = "clock"
  /\ itime' = clk
  /\ IF ~inited
       THEN /\ inited' = TRUE
            /\ executed' = Append(executed, Step(0, 0)) /\ cyc' = Append(cyc, Step(0, 0))
            /\ rpc' = IF ExecuteAll THEN "clock" ELSE "after_execute"
       ELSE /\ rpc' = "peek" /\ UNCHANGED <<inited, executed, cyc>>
  /\ lastev' = "clock"
  /\ UNCHANGED <<Script, ExecuteAll, cpc, ck, unpaused, stopf, clk, final, q, plan, qdue, qpos,
                 reported, consumed, queued, nbefore, nafter, ncycles, pausedAt, cyclesAfterPause, raced>>

RPeek ==        \* _select_event(): head of the queue if due
  /\ rpc = "peek"
  /\ IF Len(q) > 0 /\ q[1].due <= itime
       THEN plan' = q[1].id /\ rpc' = "pop"
       ELSE plan' = 0 /\ rpc' = "after_execute"          \* execute_once returns None: execute() returns
  /\ lastev' = "peek"
  /\ UNCHANGED <<Script, ExecuteAll, cpc, ck, unpaused, stopf, clk, itime, inited, final, q, qdue, qpos, cyc,
                 executed, reported, consumed, queued, nbefore, nafter, ncycles, pausedAt, cyclesAfterPause, raced>>

RPop ==         \* _select_event(consume=True): pops whatever is at the head NOW; the step reports `plan`
  /\ rpc = "pop"
  /\ LET popped == IF Len(q) > 0 /\ q[1].due <= itime THEN q[1].id ELSE 0
         st == Step(plan, popped)
     IN /\ q' = IF popped # 0 THEN Tail(q) ELSE q
        /\ consumed' = IF popped # 0 THEN Append(consumed, popped) ELSE consumed
        /\ executed' = Append(executed, st) /\ cyc' = Append(cyc, st)
        /\ final' = (final \/ (Fin # 0 /\ plan = Fin))
        /\ raced' = (raced \/ cpc = "q_insert" \/ popped # plan)
        /\ rpc' = IF ExecuteAll THEN "clock" ELSE "after_execute"
  /\ lastev' = "pop"
  /\ UNCHANGED <<Script, ExecuteAll, cpc, ck, unpaused, stopf, clk, itime, inited, plan, qdue, qpos,
                 reported, queued, nbefore, nafter, ncycles, pausedAt, cyclesAfterPause>>

RAfterExecute ==
  /\ rpc = "after_execute"
  /\ reported' = Append(reported, cyc) /\ rpc' = "sleep"
  /\ lastev' = "after_execute"
  /\ UNCHANGED <<Script, ExecuteAll, cpc, ck, unpaused, stopf, clk, itime, inited, final, q, plan, qdue, qpos, cyc,
                 executed, consumed, queued, nbefore, nafter, ncycles, pausedAt, cyclesAfterPause, raced>>

RSleep ==
  /\ rpc = "sleep"
  /\ rpc' = "wait" /\ lastev' = "sleep"
  /\ UNCHANGED <<Script, ExecuteAll, cpc, ck, unpaused, stopf, clk, itime, inited, final, q, plan, qdue, qpos, cyc,
                 executed, reported, consumed, queued, nbefore, nafter, ncycles, pausedAt, cyclesAfterPause, raced>>

RSetStop ==      \* parked right after self._stop.set(): the flag is already set
  /\ rpc = "stop_set"
  /\ rpc' = "after_run" /\ lastev' = "stop_set"
  /\ UNCHANGED <<Script, ExecuteAll, cpc, ck, unpaused, stopf, clk, itime, inited, final, q, plan, qdue, qpos, cyc,
                 executed, reported, consumed, queued, nbefore, nafter, ncycles, pausedAt, cyclesAfterPause, raced>>

RAfterRun ==
  /\ rpc = "after_run"
  /\ nafter' = nafter + 1 /\ rpc' = "done" /\ lastev' = "after_run"
  /\ UNCHANGED <<Script, ExecuteAll, cpc, ck, unpaused, stopf, clk, itime, inited, final, q, plan, qdue, qpos, cyc,
                 executed, reported, consumed, queued, nbefore, ncycles, pausedAt, cyclesAfterPause, raced>>

RunnerStep ==
  RBeforeRun \/ RWait \/ RTestStop \/ RBeforeExecute \/ RClock \/ RPeek \/ RPop \/ RAfterExecute
  \/ RSleep \/ RSetStop \/ RAfterRun

-----------------------------------------------------------------------------
(* Client thread *)
Op == Script[ck]
NextOp == /\ ck' = ck + 1 /\ cpc' = IF ck + 1 > Len(Script) THEN "done" ELSE "op"

(* bisect_right on the due times of the queue as it is NOW *)
Bisect(qq, due) == Cardinality({i \in DOMAIN qq : qq[i].due <= due})

CQueueStart ==    \* time = self.time + delay
  /\ cpc = "op" /\ Op.op = "queue"
  /\ qdue' = itime + Op.d /\ cpc' = "q_bisect" /\ lastev' = "q_start"
  /\ UNCHANGED <<Script, ExecuteAll, rpc, ck, unpaused, stopf, clk, itime, inited, final, q, plan, qpos, cyc,
                 executed, reported, consumed, queued, nbefore, nafter, ncycles, pausedAt, cyclesAfterPause, raced>>

CQueueBisect ==
  /\ cpc = "q_bisect"
  /\ qpos' = Bisect(q, qdue) /\ cpc' = "q_insert" /\ lastev' = "q_bisect"
  /\ UNCHANGED <<Script, ExecuteAll, rpc, ck, unpaused, stopf, clk, itime, inited, final, q, plan, qdue, cyc,
                 executed, reported, consumed, queued, nbefore, nafter, ncycles, pausedAt, cyclesAfterPause, raced>>

CQueueInsert ==   \* list.insert(position, ...): a position beyond the end appends
  /\ cpc = "q_insert"
  /\ LET p == IF qpos > Len(q) THEN Len(q) ELSE qpos
     IN /\ q' = InsertAt(q, p + 1, Entry(qdue, Op.ev))
        /\ raced' = (raced \/ (rpc = "pop" /\ p = 0))
  /\ queued' = queued \cup {Op.ev}
  /\ NextOp /\ lastev' = "q_insert"
  /\ UNCHANGED <<Script, ExecuteAll, rpc, unpaused, stopf, clk, itime, inited, final, plan, qdue, qpos, cyc,
                 executed, reported, consumed, nbefore, nafter, ncycles, pausedAt, cyclesAfterPause>>

CPause ==
  /\ cpc = "op" /\ Op.op = "pause"
  /\ unpaused' = FALSE /\ pausedAt' = ncycles /\ cyclesAfterPause' = 0
  /\ NextOp /\ lastev' = "pause"
  /\ UNCHANGED <<Script, ExecuteAll, rpc, stopf, clk, itime, inited, final, q, plan, qdue, qpos, cyc,
                 executed, reported, consumed, queued, nbefore, nafter, ncycles, raced>>

CUnpause ==
  /\ cpc = "op" /\ Op.op = "unpause"
  /\ unpaused' = TRUE /\ pausedAt' = -1 /\ cyclesAfterPause' = 0
  /\ NextOp /\ lastev' = "unpause"
  /\ UNCHANGED <<Script, ExecuteAll, rpc, stopf, clk, itime, inited, final, q, plan, qdue, qpos, cyc,
                 executed, reported, consumed, queued, nbefore, nafter, ncycles, raced>>

CAdvance ==
  /\ cpc = "op" /\ Op.op = "advance"
  /\ clk' = clk + Op.d
  /\ NextOp /\ lastev' = "advance"
  /\ UNCHANGED <<Script, ExecuteAll, rpc, unpaused, stopf, itime, inited, final, q, plan, qdue, qpos, cyc,
                 executed, reported, consumed, queued, nbefore, nafter, ncycles, pausedAt, cyclesAfterPause, raced>>

CStart ==        \* start(): RuntimeError (and nothing else) once stopped or while the thread is alive
  /\ cpc = "op" /\ Op.op = "start"
  /\ IF stopf \/ rpc # "idle"
       THEN UNCHANGED <<rpc, unpaused, pausedAt, cyclesAfterPause>>
       ELSE rpc' = "before_run" /\ unpaused' = TRUE /\ pausedAt' = -1 /\ cyclesAfterPause' = 0
  /\ NextOp /\ lastev' = "start"
  /\ UNCHANGED <<Script, ExecuteAll, stopf, clk, itime, inited, final, q, plan, qdue, qpos, cyc,
                 executed, reported, consumed, queued, nbefore, nafter, ncycles, raced>>

CStopSetStop ==
  /\ cpc = "op" /\ Op.op = "stop"
  /\ stopf' = TRUE /\ cpc' = "stop_unpause" /\ lastev' = "stop_set_stop"
  /\ UNCHANGED <<Script, ExecuteAll, rpc, ck, unpaused, clk, itime, inited, final, q, plan, qdue, qpos, cyc,
                 executed, reported, consumed, queued, nbefore, nafter, ncycles, pausedAt, cyclesAfterPause, raced>>

CStopUnpause ==  \* self._unpaused.set(); then wait(): join only if the thread is alive
  /\ cpc = "stop_unpause"
  /\ unpaused' = TRUE /\ pausedAt' = -1 /\ lastev' = "stop_set_unpaused"
  /\ IF rpc \in {"done", "idle"} THEN NextOp ELSE cpc' = "join" /\ ck' = ck
  /\ UNCHANGED <<Script, ExecuteAll, rpc, stopf, clk, itime, inited, final, q, plan, qdue, qpos, cyc,
                 executed, reported, consumed, queued, nbefore, nafter, ncycles, cyclesAfterPause, raced>>

CJoin ==          \* Thread.join() returns when the runner thread has ended
  /\ cpc = "join" /\ rpc = "done"
  /\ NextOp /\ lastev' = "join"
  /\ UNCHANGED <<Script, ExecuteAll, rpc, unpaused, stopf, clk, itime, inited, final, q, plan, qdue, qpos, cyc,
                 executed, reported, consumed, queued, nbefore, nafter, ncycles, pausedAt, cyclesAfterPause, raced>>

ClientStep ==
  CQueueStart \/ CQueueBisect \/ CQueueInsert \/ CPause \/ CUnpause \/ CAdvance
  \/ CStopSetStop \/ CStopUnpause \/ CJoin \/ CStart

-----------------------------------------------------------------------------
Terminated == cpc = "done" /\ (rpc \in {"done", "idle"} \/ (rpc = "wait" /\ ~unpaused))
RStep == RunnerStep /\ Log("r")
CStep == ClientStep /\ Log("c")
Next ==
  \/ RStep
  \/ CStep
  \/ (Terminated /\ UNCHANGED vars)

Spec == Init /\ [][Next]_vars
FairSpec == Spec /\ WF_vars(RStep) /\ WF_vars(CStep)

Bounded == ncycles <= MaxCycles
Emit == EmitEdges => PrintT(ToJson([script |-> Script, xall |-> ExecuteAll, hist |-> hist']))

-----------------------------------------------------------------------------
(* C20.  The clauses are written over a snapshot record so that they can   *)
(* be evaluated both on the model state (Snap) and on what was observed on *)
(* the real threads (RunnerTrace.tla).                                     *)
Snap ==
  [script |-> Script, xall |-> ExecuteAll, rpc |-> rpc, cpc |-> cpc, unpaused |-> unpaused,
   stopf |-> stopf, final |-> final, q |-> q, executed |-> executed, reported |-> reported,
   consumed |-> consumed, queued |-> queued, nbefore |-> nbefore, nafter |-> nafter,
   cyclesAfterPause |-> cyclesAfterPause, raced |-> raced, ck |-> ck]

Flat(ss) == FlattenSeq(ss)
Quiet(s) == s.rpc \in {"idle", "sleep", "wait", "test_stop", "before_execute", "stop_set", "after_run", "done"}

(* every executed macro step is handed exactly once, in order, to after_execute *)
C_reported_prefix(s) == IsPrefix(Flat(s.reported), s.executed)
C_all_reported(s) == Quiet(s) => Flat(s.reported) = s.executed
C_one_per_cycle(s) == ~s.xall => \A i \in DOMAIN s.reported : Len(s.reported[i]) <= 1

(* each queued event is consumed at most once, the step reports the event it popped, nothing is lost *)
C_no_duplicate(s) == \A i, j \in DOMAIN s.consumed : i # j => s.consumed[i] # s.consumed[j]
C_reports_popped(s) == \A i \in DOMAIN s.executed : s.executed[i].ev = s.executed[i].popped
C_conservation(s) ==
  LET inq == {s.q[i].id : i \in DOMAIN s.q}
  IN /\ inq \cap Range(s.consumed) = {}
     /\ inq \cup Range(s.consumed) = s.queued
     /\ Len(s.q) = Cardinality(inq)
C_queue_sorted(s) == \A i, j \in DOMAIN s.q : i < j => s.q[i].due <= s.q[j].due

(* lifecycle *)
C_hooks_once(s) == /\ s.nbefore <= 1 /\ s.nafter <= 1
                   /\ (s.rpc = "done" => (s.nbefore = 1 /\ s.nafter = 1))
                   /\ (s.rpc \notin {"before_run", "idle"} => s.nbefore = 1)
                   /\ (s.rpc \notin {"done"} => s.nafter = 0)
C_pause_holds(s) == s.cyclesAfterPause <= 1
C_nothing_after_stop(s) ==
  (s.cpc = "done" /\ Len(s.script) > 0 /\ s.script[Len(s.script)].op = "stop") => s.rpc \in {"done", "idle"}
(* once a stop() call has returned there is no live runner thread, whatever is called afterwards *)
C_stopped_for_good(s) ==
  (\E i \in 1..(s.ck - 1) : i \in DOMAIN s.script /\ s.script[i].op = "stop") => s.rpc \in {"done", "idle"}

SafetyClauses(s) ==
  (IF C_reported_prefix(s) THEN {} ELSE {"reported_prefix"})
  \cup (IF C_all_reported(s) THEN {} ELSE {"all_reported"})
  \cup (IF C_one_per_cycle(s) THEN {} ELSE {"one_per_cycle"})
  \cup (IF C_hooks_once(s) THEN {} ELSE {"hooks_once"})
  \cup (IF C_pause_holds(s) THEN {} ELSE {"pause_holds"})
  \cup (IF C_nothing_after_stop(s) THEN {} ELSE {"nothing_after_stop"})
  \cup (IF C_stopped_for_good(s) THEN {} ELSE {"stopped_for_good"})

(* the part of C20 that the queue races of known finding D11 break *)
EventClauses(s) ==
  (IF C_no_duplicate(s) THEN {} ELSE {"no_duplicate"})
  \cup (IF C_reports_popped(s) THEN {} ELSE {"reports_popped"})
  \cup (IF C_conservation(s) THEN {} ELSE {"conservation"})
  \cup (IF C_queue_sorted(s) THEN {} ELSE {"queue_sorted"})

Safety == SafetyClauses(Snap) = {}
EventSafety == EventClauses(Snap) = {}
EventSafetyUnlessRaced == raced \/ EventSafety

(* liveness, under weak fairness of both threads *)
StopReturns == (\E i \in DOMAIN Script : Script[i].op = "stop") => <>(cpc = "done")
FinalStops == [](final => <>(rpc \in {"done", "idle"} \/ (rpc = "wait" /\ ~unpaused)))
=============================================================================
