----------------------------- MODULE RunnerTrace -----------------------------
(* Schedules forced on the real AsyncRunner threads (harness/sched.py), checked against  *)
(* Runner.tla.  The trace file holds one TREE per (script, execute_all): schedules that  *)
(* share a prefix share its nodes.  node = [uid, kids, who, obs] where `who` is the      *)
(* thread that was released ("r" / "c") and `obs` the snapshot of the real objects after *)
(* the step (it includes the labels where both threads are parked).  TLC steps the model *)
(* with the same thread; C20's clauses are evaluated on the OBSERVED snapshot (the ghost *)
(* flag `raced` comes from the model); a disagreement between the model and the          *)
(* observation is reported separately (div).  One JSON report per node.                  *)
EXTENDS Runner, IOUtils

Traces == JsonDeserialize(IOEnv.TRACE_FILE)
VARIABLES tid, nd, div
tvars == <<tid, nd, div, vars>>
Tr1 == Traces[tid]

ObsOf(o) ==
  [script |-> Script, xall |-> ExecuteAll, rpc |-> o.rpc, cpc |-> o.cpc, unpaused |-> o.unpaused,
   stopf |-> o.stopf, final |-> o.final, q |-> o.q, executed |-> o.executed, reported |-> o.reported,
   consumed |-> o.consumed, queued |-> Range(o.queued), nbefore |-> o.nbefore, nafter |-> o.nafter,
   cyclesAfterPause |-> o.cap, raced |-> raced, ck |-> o.ck]

Same(o) ==
  /\ o.rpc = rpc /\ o.cpc = cpc /\ o.unpaused = unpaused /\ o.stopf = stopf /\ o.final = final
  /\ o.q = q /\ o.executed = executed /\ o.reported = reported /\ o.consumed = consumed
  /\ Range(o.queued) = queued /\ o.nbefore = nbefore /\ o.nafter = nafter /\ o.itime = itime
  /\ o.clk = clk /\ o.inited = inited /\ o.ck = ck

TInit ==
  /\ tid \in DOMAIN Traces /\ nd = 0 /\ div = FALSE
  /\ Script = Traces[tid].script /\ ExecuteAll = Traces[tid].xall /\ InitRest

Visit(k) ==
  LET N == Tr1.nodes[k] IN
  /\ nd' = k
  /\ UNCHANGED tid
  /\ IF ~div
       THEN \/ (N.who = "r" /\ RunnerStep /\ hist' = hist)
            \/ (N.who = "c" /\ ClientStep /\ hist' = hist)
            \/ (N.who = "r" /\ ~ENABLED RunnerStep /\ UNCHANGED vars)
            \/ (N.who = "c" /\ ~ENABLED ClientStep /\ UNCHANGED vars)
       ELSE UNCHANGED vars
  /\ div' = (div \/ ~(Same(N.obs))')
  /\ PrintT(ToJson([u |-> N.uid, d |-> IF div' THEN 1 ELSE 0, r |-> IF raced' THEN 1 ELSE 0,
                    b |-> SetToSeq(SafetyClauses(ObsOf(N.obs))'),
                    e |-> SetToSeq(EventClauses(ObsOf(N.obs))')]))

TNext == \E k \in Range(IF nd = 0 THEN Tr1.roots ELSE Tr1.nodes[nd].kids) : Visit(k)
TSpec == TInit /\ [][TNext]_tvars
=============================================================================
