------------------------------- MODULE Sismic -------------------------------
(***************************************************************************)
(* The interpreter as a state machine over its public calls:               *)
(*   Queue(e, par, dl)   Interpreter.queue(Event(e, delay=dl, v=par))      *)
(*   Advance(d)          interpreter.clock.time += d                       *)
(*   ExecuteOnce(orc)    Interpreter.execute_once() under a step oracle    *)
(* over a family of statecharts (ChartsData!Charts, index chosen in Init). *)
(* `last` is the observation of the last call, in the shape Props.tla      *)
(* expects; `G` is the ghost state of Props.tla; `hist` is the input       *)
(* history (hidden by the VIEW) that the harness replays on the real code. *)
(***************************************************************************)
EXTENDS Semantics, Props, ChartsData, Json

CONSTANTS MaxQ,        \* bound on the length of the external queue
          MaxClk,      \* bound on the clock
          Delays,      \* delays usable in Queue
          Advances,    \* clock increments
          Params,      \* event parameter values usable in Queue
          Opt,         \* [ignore |-> BOOLEAN, metas |-> BOOLEAN]
          MaxCFail,    \* contract-failure positions 0..MaxCFail are injected
          MaxMFail,    \* monitor-failure positions 0..MaxMFail are injected
          MaxLevel,    \* bound on the length of behaviours
          EmitEdges,   \* print one replayable test per edge
          Twin,        \* "" | "ignore": also run the twin of every call (relational properties)
          ExecMany     \* also explore Interpreter.execute(max_steps) as the last call of a behaviour

VARIABLES ci, S, clk, G, dead, last, hist
vars == <<ci, S, clk, G, dead, last, hist>>
View == <<ci, S, clk, G, dead>>

c == Charts[ci]

TimedStates(ch) ==
  {ch.trans[i].src : i \in {j \in DOMAIN ch.trans : ch.trans[j].gk \in {"after", "idle", "afterp", "idlep"}
                                                       \/ ch.trans[j].post + ch.trans[j].inv > 0}}
  \cup {s \in States(ch) : ch.spost[s] + ch.sinv[s] > 0}
HistParents(ch) == {ch.parent[h] : h \in {s \in States(ch) : IsHistory(ch, s)}}
OldStates(ch) == {s \in States(ch) : ch.spost[s] + ch.sinv[s] > 0}

(* keep only the bookkeeping that can influence the future (smaller state space) *)
MaskS(ch, s) ==
  [s EXCEPT !.entryT = [q \in States(ch) |-> IF q \in TimedStates(ch) THEN @[q] ELSE 0],
            !.idleT  = [q \in States(ch) |-> IF q \in TimedStates(ch) THEN @[q] ELSE 0],
            !.old    = [q \in States(ch) |-> IF q \in OldStates(ch) /\ q \in s.conf THEN @[q] ELSE -1]]
MaskG(ch, g) ==
  [g EXCEPT !.entryT = [q \in States(ch) |-> IF q \in TimedStates(ch) THEN @[q] ELSE 0],
            !.idleT  = [q \in States(ch) |-> IF q \in TimedStates(ch) THEN @[q] ELSE 0],
            !.snap   = [q \in States(ch) |-> IF q \in HistParents(ch) THEN @[q] ELSE {}],
            !.oldx   = [q \in States(ch) |-> IF q \in OldStates(ch) THEN @[q] ELSE -1]]

St(s) == [conf |-> s.conf, final |-> Final(s), time |-> s.time, x |-> s.x]

NoOrc == [gv |-> <<>>, cfail |-> 0, mfail |-> 0]

RefOf(rel, A) ==
  [rel |-> rel, exc |-> A.exc, some |-> A.exc = "" /\ A.steps # <<>>,
   steps |-> IF A.exc = "" THEN A.steps ELSE <<>>, log |-> A.log,
   conf |-> A.S.conf, final |-> Final(A.S), x |-> A.S.x]

Obs(op, ev, par, dl, orc, clk0, s0, s1, A) ==
  [op |-> op, ev |-> ev, par |-> par, dl |-> dl, ign |-> Opt.ignore, stale |-> 0, opq |-> FALSE, tp |-> TpOf(IF A.exc = "" THEN A.steps ELSE <<>>),
   hasl2 |-> Opt.metas,
   l2 |-> IF ~Opt.metas THEN <<>>
          ELSE IF A.exc = "PropertyStatechartError" THEN Front(MetasL(A.log)) ELSE MetasL(A.log),
   mt |-> [j \in DOMAIN MetasL(A.log) |-> MetasL(A.log)[j].t],
   ref |-> IF op = "exec" /\ (orc.cfail # 0 \/ orc.mfail # 0)
             THEN RefOf("nofail", MacroStep(c, Opt, [orc EXCEPT !.cfail = 0, !.mfail = 0], s0, clk0))
           ELSE IF op = "exec" /\ Twin = "ignore"
             THEN RefOf("ignore", MacroStep(c, [Opt EXCEPT !.ignore = TRUE], orc, s0, clk0))
           ELSE NoRef,
   gv |-> orc.gv, cfail |-> orc.cfail, mfail |-> orc.mfail, clk |-> clk0,
   pre |-> St(s0), post |-> St(s1),
   some |-> A.exc = "" /\ A.steps # <<>>, rtime |-> s1.time,
   steps |-> IF A.exc = "" THEN A.steps ELSE <<>>,
   exc |-> A.exc, eobj |-> A.eobj, eidx |-> A.eidx, log |-> A.log]

NoA == [exc |-> "", eobj |-> 0, eidx |-> 0, steps |-> <<>>, log |-> <<>>, S |-> [conf |-> {}, init |-> FALSE, x |-> 0]]

HEntry(op, ev, par, dl, d, orc) ==
  [op |-> op, ev |-> ev, par |-> par, dl |-> dl, d |-> d,
   gv |-> [i \in DOMAIN orc.gv |-> IF orc.gv[i] THEN 1 ELSE 0], cfail |-> orc.cfail, mfail |-> orc.mfail]

Init ==
  /\ ci \in DOMAIN Charts
  /\ S = InitState(Charts[ci])
  /\ clk = 0
  /\ G = GhostInit(Charts[ci])
  /\ dead = FALSE
  /\ last = Obs("none", 0, 0, 0, NoOrc, 0, S, S, NoA)
  /\ hist = <<>>

Queue(e, par, dl) ==
  /\ ~dead
  /\ Len(S.eq) < MaxQ
  /\ LET S1 == QueueExternal(S, e, par, dl)
         o  == Obs("queue", e, par, dl, NoOrc, clk, S, S1, NoA)
     IN /\ S' = S1
        /\ last' = o
        /\ G' = MaskG(c, GhostUpdate(c, G, o))
        /\ hist' = Append(hist, HEntry("queue", e, par, dl, 0, NoOrc))
  /\ UNCHANGED <<ci, clk, dead>>

Advance(d) ==
  /\ ~dead
  /\ clk + d <= MaxClk
  /\ clk' = clk + d
  /\ last' = Obs("adv", 0, 0, 0, NoOrc, clk, S, S, NoA)
  /\ hist' = Append(hist, HEntry("adv", 0, 0, 0, d, NoOrc))
  /\ UNCHANGED <<ci, S, G, dead>>

OracleIdx == {i \in DOMAIN c.trans : c.trans[i].gk = "oracle"}
GVs == {[i \in DOMAIN c.trans |-> IF i \in OracleIdx THEN f[i] ELSE FALSE] : f \in [OracleIdx -> BOOLEAN]}

ExecuteOnce(orc) ==
  /\ ~dead
  /\ LET A  == MacroStep(c, Opt, orc, S, clk)
         S1 == MaskS(c, A.S)
         o  == Obs("exec", 0, 0, 0, orc, clk, S, S1, A)
     IN /\ S' = S1
        /\ clk' = A.clk
        /\ last' = o
        /\ G' = MaskG(c, GhostUpdate(c, G, o))
        /\ dead' = (A.exc \in ContractErrors \cup {"PropertyStatechartError"})
        /\ hist' = Append(hist, HEntry("exec", 0, 0, 0, 0, orc))
  /\ UNCHANGED ci

(* Interpreter.execute(max_steps=mx), mx >= 1 (a step oracle that keeps an eventless transition enabled would make an
   unbounded execute() run forever): only as the last call of a behaviour (the ghost is per execute_once) *)
ExecuteAll(orc, mx) ==
  /\ ~dead /\ Len(hist) >= 2
  /\ LET A  == ExecuteMany(c, Opt, orc, S, clk, mx)
         S1 == MaskS(c, A.S)
         o  == [Obs("execute", mx, 0, 0, orc, clk, S, S1, A) EXCEPT !.eidx = A.n]
     IN /\ S' = S1
        /\ clk' = A.clk
        /\ last' = o
        /\ G' = G
        /\ dead' = TRUE
        /\ hist' = Append(hist, [HEntry("execute", mx, 0, 0, 0, orc) EXCEPT !.ev = mx])
  /\ UNCHANGED ci

Next ==
  \/ (ExecMany /\ \E gv \in GVs, mx \in {1, 2, 3} : ExecuteAll([gv |-> gv, cfail |-> 0, mfail |-> 0], mx))
  \/ \E e \in Range(c.events), p \in Params, dl \in Delays : Queue(e, p, dl)
  \/ \E d \in Advances : Advance(d)
  \/ \E gv \in GVs, f \in {<<0, 0>>} \cup ((1..MaxCFail) \X {0}) \cup ({0} \X (1..MaxMFail)) :
        ExecuteOnce([gv |-> gv, cfail |-> f[1], mfail |-> f[2]])

Spec == Init /\ [][Next]_vars

Bounded == Len(hist) <= MaxLevel /\ clk <= MaxClk

(* one replayable test per edge of the reduced graph *)
Emit == EmitEdges => PrintT(ToJson([ci |-> ci, hist |-> hist']))

-----------------------------------------------------------------------------
(* Sanity of the inputs *)
ChartsWF == \A i \in DOMAIN Charts : WF(Charts[i])

(* The properties, as action properties over every explored edge *)
P(p) == [][BadOf(p, c, G, last') = {}]_vars
P_C01 == P("C01")
P_C02 == P("C02")
P_C03 == P("C03")
P_C04 == P("C04")
P_C05 == P("C05")
P_C06 == P("C06")
P_C13 == P("C13")
P_All == [][Bad(c, G, last') = {}]_vars
=============================================================================
