------------------------------- MODULE Model -------------------------------
(***************************************************************************)
(* The structural editing API of sismic/model/statechart.py as a state     *)
(* machine over an abstract statechart                                     *)
(*   T = [names, kind, parent, children, roots, initial, memory, trans]    *)
(* over the name universe 1..M (a name is an integer; Unk = M+1 is a name  *)
(* that never exists).  One operator per editing call, written as the      *)
(* GUARD CHAIN IN THE ORDER THE CODE TESTS THINGS followed by the effect,  *)
(* returning [T |-> new structure, res |-> "ok" | "StatechartError" |      *)
(* "ValueError"].  Used three ways: as TLC actions (design check of the    *)
(* C16 invariants), to emit edges replayed on a real Statechart, and by    *)
(* ModelTrace.tla to decide recorded editing sessions.                     *)
(***************************************************************************)
EXTENDS Integers, Sequences, FiniteSets, SequencesExt, FiniteSetsExt, Functions, TLC

CONSTANT M
U == 1..M
Unk == M + 1
NoChange == -1
Kinds == {"basic", "compound", "orthogonal", "final", "shallow", "deep"}
Composite == {"compound", "orthogonal"}
History == {"shallow", "deep"}
Owner == {"basic", "compound", "orthogonal"}

Empty ==
  [names |-> {}, kind |-> [s \in U |-> ""], parent |-> [s \in U |-> -1],
   children |-> [s \in U |-> <<>>], roots |-> <<>>, initial |-> [s \in U |-> 0],
   memory |-> [s \in U |-> 0], trans |-> <<>>]

Tr(s, t, e) == [src |-> s, tgt |-> t, ev |-> e]
Res(T, r) == [T |-> T, res |-> r]
Err(T) == Res(T, "StatechartError")

(* ancestors, with fuel: terminates (and reports s \in Anc(T, s)) even on a cyclic parent relation *)
RECURSIVE AncF(_, _, _)
AncF(T, s, k) ==
  IF k = 0 \/ s \notin U THEN {}
  ELSE IF T.parent[s] <= 0 THEN {} ELSE {T.parent[s]} \cup AncF(T, T.parent[s], k - 1)
Anc(T, s) == AncF(T, s, M + 1)
Desc(T, s) == {x \in T.names : s \in Anc(T, x)}
Sub(T, s) == {s} \cup Desc(T, s)
Kids(T, p) == IF p = 0 THEN T.roots ELSE T.children[p]
WithoutElem(seq, x) == SelectSeq(seq, LAMBDA y : y # x)

-----------------------------------------------------------------------------
(* add_state(state, parent); the new state carries no initial / memory     *)
AddState(T, n, k, p) ==
  IF n \in T.names THEN Err(T)                                   \* already exists
  ELSE IF p = 0 /\ T.roots # <<>> THEN Err(T)                    \* root already defined
  ELSE IF p = 0 /\ k \in History THEN Err(T)                     \* a history state is not a root
  ELSE IF p # 0 /\ p \notin T.names THEN Err(T)                  \* unknown parent
  ELSE IF p # 0 /\ T.kind[p] \notin Composite THEN Err(T)        \* parent cannot have children
  ELSE IF p # 0 /\ k \in History /\ T.kind[p] # "compound" THEN Err(T)
  ELSE Res([T EXCEPT !.names = @ \cup {n}, !.kind[n] = k, !.parent[n] = p,
                     !.children = IF p = 0 THEN [@ EXCEPT ![n] = <<>>]
                                  ELSE [@ EXCEPT ![n] = <<>>, ![p] = Append(@, n)],
                     !.roots = IF p = 0 THEN Append(@, n) ELSE @,
                     !.initial[n] = 0, !.memory[n] = 0], "ok")

(* remove_state(name): the sub-tree, every transition touching it, dangling initial/memory *)
RemoveState(T, n) ==
  IF n \notin T.names THEN Err(T)
  ELSE LET R == Sub(T, n)
           p == T.parent[n]
       IN Res([names |-> T.names \ R,
               kind |-> [s \in U |-> IF s \in R THEN "" ELSE T.kind[s]],
               parent |-> [s \in U |-> IF s \in R THEN -1 ELSE T.parent[s]],
               children |-> [s \in U |-> IF s \in R THEN <<>>
                                        ELSE IF s = p THEN WithoutElem(T.children[s], n)
                                        ELSE T.children[s]],
               roots |-> IF p = 0 THEN WithoutElem(T.roots, n) ELSE T.roots,
               initial |-> [s \in U |-> IF s \in R \/ T.initial[s] \in R THEN 0 ELSE T.initial[s]],
               memory |-> [s \in U |-> IF s \in R \/ T.memory[s] \in R THEN 0 ELSE T.memory[s]],
               trans |-> SelectSeq(T.trans, LAMBDA t : t.src \notin R /\ t.tgt \notin R)], "ok")

(* rename_state(old, new) *)
RenameState(T, o, n) ==
  IF o = n THEN Res(T, "ok")
  ELSE IF n \in T.names THEN Err(T)
  ELSE IF o \notin T.names THEN Err(T)
  ELSE LET r(x) == IF x = o THEN n ELSE x
           p == T.parent[o]
           mv(f, dflt) == [s \in U |-> IF s = n THEN r(f[o]) ELSE IF s = o THEN dflt ELSE r(f[s])]
       IN Res([names |-> (T.names \ {o}) \cup {n},
               kind |-> [s \in U |-> IF s = n THEN T.kind[o] ELSE IF s = o THEN "" ELSE T.kind[s]],
               parent |-> [s \in U |-> IF s = n THEN T.parent[o] ELSE IF s = o THEN -1
                                       ELSE IF T.parent[s] = o THEN n ELSE T.parent[s]],
               children |-> [s \in U |-> IF s = n THEN T.children[o] ELSE IF s = o THEN <<>>
                                         ELSE IF s = p THEN Append(WithoutElem(T.children[s], o), n)
                                         ELSE T.children[s]],
               roots |-> IF p = 0 THEN Append(WithoutElem(T.roots, o), n) ELSE T.roots,
               initial |-> mv(T.initial, 0),
               memory |-> mv(T.memory, 0),
               trans |-> [i \in DOMAIN T.trans |->
                            Tr(r(T.trans[i].src), IF T.trans[i].tgt = 0 THEN 0 ELSE r(T.trans[i].tgt),
                               T.trans[i].ev)]], "ok")

(* move_state(name, new_parent): any existing new parent outside the sub-tree is accepted *)
MoveState(T, n, p) ==
  IF n \notin T.names THEN Err(T)
  ELSE IF p \notin T.names THEN Err(T)
  ELSE IF p \in Sub(T, n) THEN Err(T)
  ELSE LET old == T.parent[n]
       IN Res([T EXCEPT
                 !.parent[n] = p,
                 !.children = [s \in U |-> IF s = old /\ s = p THEN Append(WithoutElem(@[s], n), n)
                                           ELSE IF s = old THEN WithoutElem(@[s], n)
                                           ELSE IF s = p THEN Append(@[s], n) ELSE @[s]],
                 !.roots = IF old = 0 THEN WithoutElem(@, n) ELSE @,
                 !.initial = [s \in U |-> IF @[s] = n THEN 0 ELSE @[s]],
                 !.memory = [s \in U |-> IF @[s] = n \/ (s = n /\ T.kind[n] \in History) THEN 0
                                         ELSE @[s]]], "ok")

(* add_transition *)
AddTransition(T, s, t, e) ==
  IF s \notin T.names THEN Err(T)
  ELSE IF T.kind[s] \notin Owner THEN Err(T)
  ELSE IF t # 0 /\ t \notin T.names THEN Err(T)
  ELSE Res([T EXCEPT !.trans = Append(@, Tr(s, t, e))], "ok")

(* remove_transition: one occurrence of an equal transition *)
RemoveTransition(T, tr) ==
  LET idx == {i \in DOMAIN T.trans : T.trans[i] = tr}
  IN IF idx = {} THEN Err(T) ELSE Res([T EXCEPT !.trans = RemoveAt(@, Min(idx))], "ok")

(* rotate_transition(transition, new_source, new_target); arguments are checked before *)
(* anything is changed                                                                 *)
RotateTransition(T, tr, ns, nt) ==
  IF ns = NoChange /\ nt = NoChange THEN Res(T, "ValueError")
  ELSE LET idx == {i \in DOMAIN T.trans : T.trans[i] = tr} IN
    IF idx = {} THEN Err(T)
    ELSE IF ns # NoChange /\ ns \notin T.names THEN Err(T)
    ELSE IF ns # NoChange /\ T.kind[ns] \notin Owner THEN Err(T)
    ELSE IF nt \notin {NoChange, 0} /\ nt \notin T.names THEN Err(T)
    ELSE LET i == Min(idx)
             t2 == Tr(IF ns = NoChange THEN tr.src ELSE ns, IF nt = NoChange THEN tr.tgt ELSE nt, tr.ev)
         IN Res([T EXCEPT !.trans[i] = t2], "ok")

(* attribute assignments a user makes directly: state.initial = x / state.memory = x *)
SetInitial(T, s, x) == Res([T EXCEPT !.initial[s] = x], "ok")
SetMemory(T, h, x) == Res([T EXCEPT !.memory[h] = x], "ok")

Apply(T, op, a, b, cc) ==
  CASE op = "add_state"         -> AddState(T, a, b, cc)
    [] op = "remove_state"      -> RemoveState(T, a)
    [] op = "rename_state"      -> RenameState(T, a, b)
    [] op = "move_state"        -> MoveState(T, a, b)
    [] op = "add_transition"    -> AddTransition(T, a.src, a.tgt, a.ev)
    [] op = "remove_transition" -> RemoveTransition(T, a)
    [] op = "rotate_transition" -> RotateTransition(T, a, b, cc)
    [] op = "set_initial"       -> SetInitial(T, a, b)
    [] op = "set_memory"        -> SetMemory(T, a, b)

-----------------------------------------------------------------------------
(* C16: what "sound" means, over a structure T (model state or projection of the real object) *)
OneTree(T) ==
  /\ Len(T.roots) = (IF T.names = {} THEN 0 ELSE 1)
  /\ \A s \in T.names : T.parent[s] = 0 \/ T.parent[s] \in T.names
  /\ \A s \in T.names : s \notin Anc(T, s)
  /\ \A s \in U \ T.names : T.parent[s] = -1 /\ T.children[s] = <<>>

ParentChildren(T) ==
  /\ \A p \in T.names : /\ Range(T.children[p]) = {s \in T.names : T.parent[s] = p}
                        /\ Len(T.children[p]) = Cardinality(Range(T.children[p]))
  /\ Range(T.roots) = {s \in T.names : T.parent[s] = 0}

TransOK(T) ==
  \A i \in DOMAIN T.trans :
     /\ T.trans[i].src \in T.names /\ T.kind[T.trans[i].src] \in Owner
     /\ T.trans[i].tgt = 0 \/ T.trans[i].tgt \in T.names

NoDangling(T) ==
  \A s \in T.names : /\ T.initial[s] = 0 \/ T.initial[s] \in T.names
                     /\ T.memory[s] = 0 \/ T.memory[s] \in T.names

(* validate() *)
Validates(T) ==
  /\ \A s \in T.names : (T.kind[s] = "compound" /\ T.initial[s] # 0) =>
        (T.initial[s] \in T.names /\ T.parent[T.initial[s]] = s)
  /\ \A h \in T.names : (T.kind[h] \in History /\ T.memory[h] # 0) =>
        (T.memory[h] # h /\ T.memory[h] \in T.names /\ T.parent[h] > 0
         /\ T.parent[T.memory[h]] = T.parent[h])

Sound(T) == OneTree(T) /\ ParentChildren(T) /\ TransOK(T) /\ NoDangling(T) /\ Validates(T)

(* comparison of structures: children as sets, transitions as bags *)
BagOf(seq) == [x \in Range(seq) |-> Cardinality({i \in DOMAIN seq : seq[i] = x})]
SameStruct(A, B) ==
  /\ A.names = B.names /\ A.kind = B.kind /\ A.parent = B.parent
  /\ \A s \in U : Range(A.children[s]) = Range(B.children[s])
  /\ Range(A.roots) = Range(B.roots)
  /\ A.initial = B.initial /\ A.memory = B.memory
  /\ BagOf(A.trans) = BagOf(B.trans)
=============================================================================
