----------------------------- MODULE YamlTrace -----------------------------
(* Outcomes of the real import_from_yaml / export_to_yaml, decided against Yaml.tla.      *)
(* lines: [kind = "import", doc, outcome ("ok" | exception class), struct]                *)
(*        [kind = "roundtrip", orig, back, eqs, outcome]   (rich structures, C11)         *)
EXTENDS Yaml, Json, IOUtils

Lines == JsonDeserialize(IOEnv.TRACE_FILE)
VARIABLES l
ToT(p) ==
  [names |-> Range(p.names), kind |-> p.kind, parent |-> p.parent, children |-> p.children,
   roots |-> p.roots, initial |-> p.initial, memory |-> p.memory,
   trans |-> [i \in DOMAIN p.trans |-> Tr(p.trans[i].src, p.trans[i].tgt, p.trans[i].ev)]]

ImportClauses(L) ==
  LET d == L.doc
      ok == L.outcome = "ok"
  IN (IF ok <=> DocSound(d) THEN {} ELSE {IF ok THEN "accepted_unsound" ELSE "rejected_sound"})
     \cup (IF L.outcome \in {"ok", "StatechartError"} THEN {} ELSE {"error_class"})
     \cup (IF ok /\ ~Sound(ToT(L.struct)) THEN {"returned_unsound"} ELSE {})
     \cup (IF ok /\ Accepts(d) /\ ~SameStruct(ToT(L.struct), Import(d)) THEN {"structure"} ELSE {})
     \cup (IF ok /\ Accepts(d) /\ BagOf(L.prios) # BagOf(ImportPrios(d)) THEN {"priorities"} ELSE {})
     \cup (IF L.canary THEN {} ELSE {"later_import_disturbed"})

(* rich structures: every field of every state and transition, strings interned as integers *)
RoundTripClauses(L) ==
  (IF L.outcome = "ok" THEN {} ELSE {"reimport_failed"})
  \cup (IF L.outcome = "ok" /\ L.orig.meta # L.back.meta THEN {"name_description_preamble"} ELSE {})
  \cup (IF L.outcome = "ok" /\ BagOf(L.orig.states) # BagOf(L.back.states) THEN {"states"} ELSE {})
  \cup (IF L.outcome = "ok" /\ BagOf(L.orig.trans) # BagOf(L.back.trans) THEN {"transitions"} ELSE {})
  \cup (IF L.outcome = "ok" /\ \E i \in DOMAIN L.eqs : ~L.eqs[i] THEN {"equality"} ELSE {})
  \cup (IF L.canary THEN {} ELSE {"later_import_disturbed"})

Div(L) == IF L.kind = "import" /\ ((L.outcome = "ok") # Accepts(L.doc)) THEN 1 ELSE 0

TInit == l \in DOMAIN Lines
TNext == FALSE /\ l' = l
TSpec == TInit /\ [][TNext]_l
Report ==
  PrintT(ToJson([id |-> Lines[l].id, div |-> Div(Lines[l]),
                 bad |-> SetToSeq(IF Lines[l].kind = "import" THEN ImportClauses(Lines[l])
                                  ELSE RoundTripClauses(Lines[l]))]))
=============================================================================
