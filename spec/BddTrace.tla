------------------------------ MODULE BddTrace ------------------------------
(* Verdicts reported by behave for scenarios run through the real execute_bdd, decided  *)
(* against Bdd.tla: a then step is "passed" iff Truth says the asserted fact holds; a    *)
(* given/when step always passes.  trace = [id, ci, steps : Seq(step + status)]          *)
EXTENDS Bdd, ChartsData, Json, IOUtils

Traces == JsonDeserialize(IOEnv.TRACE_FILE)
VARIABLES tid, l, B, bad
tvars == <<tid, l, B, bad>>
Tr1 == Traces[tid]
c == Charts[Tr1.ci]

TInit == tid \in DOMAIN Traces /\ l = 1 /\ bad = {} /\ B = BInit(Charts[Traces[tid].ci])

TNext ==
  /\ l <= Len(Tr1.steps)
  /\ LET st == Tr1.steps[l]
         r == Apply1(c, B, st)
         passed == st.status = "passed"
     IN /\ B' = r.B
        /\ bad' = bad \cup (IF passed = r.pass THEN {}
                            ELSE {<<l, IF passed THEN "passed_but_false" ELSE "not_passed_but_true">>})
  /\ l' = l + 1
  /\ UNCHANGED tid

TSpec == TInit /\ [][TNext]_tvars
Report == (l = Len(Tr1.steps) + 1) =>
            PrintT(ToJson([id |-> Tr1.id, lines |-> Len(Tr1.steps), bad |-> SetToSeq(bad)]))
=============================================================================
