----------------------------- MODULE ModelTrace -----------------------------
(* Recorded editing sessions on a real sismic Statechart, decided against Model.tla:  *)
(* trace = [id, init : structure, lines : Seq([op, a, b, c, res, post, valid])]; the  *)
(* structure before a call is the one observed after the previous call.  Every line   *)
(* must satisfy                                                                       *)
(*   sound      Sound(post)  (one tree, consistent parent/children, transitions,      *)
(*              no dangling initial/memory, validate())                               *)
(*   failed     res # "ok"  =>  post = pre                                            *)
(*   effect     post and res are exactly what the documented operation yields on pre  *)
(*   validate   the real validate() agreed with Validates(post)                       *)
EXTENDS Model, Json, IOUtils

Traces == JsonDeserialize(IOEnv.TRACE_FILE)

VARIABLES tid, l, cur, bad
tvars == <<tid, l, cur, bad>>
Tr1 == Traces[tid]

ToT(p) ==
  [names |-> Range(p.names), kind |-> p.kind, parent |-> p.parent, children |-> p.children,
   roots |-> p.roots, initial |-> p.initial, memory |-> p.memory,
   trans |-> [i \in DOMAIN p.trans |-> Tr(p.trans[i].src, p.trans[i].tgt, p.trans[i].ev)]]

TInit == tid \in DOMAIN Traces /\ l = 1 /\ bad = {} /\ cur = ToT(Traces[tid].init)

Clauses(L) ==
  LET pre == cur
      post == ToT(L.post)
      isT == L.op \in {"add_transition", "remove_transition", "rotate_transition"}
      a == IF isT THEN Tr(L.a.src, L.a.tgt, L.a.ev) ELSE L.a
      r == Apply(pre, L.op, a, L.b, L.c)
  IN (IF Sound(post) THEN {} ELSE {"sound"})
     \cup (IF L.res # "ok" /\ ~SameStruct(pre, post) THEN {"failed"} ELSE {})
     \cup (IF L.res = r.res /\ SameStruct(post, r.T) THEN {} ELSE {"effect"})
     \cup (IF L.valid = Validates(post) THEN {} ELSE {"validate"})

TNext ==
  /\ l <= Len(Tr1.lines)
  /\ bad' = bad \cup {<<l, x>> : x \in Clauses(Tr1.lines[l])}
  /\ cur' = ToT(Tr1.lines[l].post)
  /\ l' = l + 1
  /\ UNCHANGED tid

TSpec == TInit /\ [][TNext]_tvars
Report == (l = Len(Tr1.lines) + 1) =>
            PrintT(ToJson([id |-> Tr1.id, lines |-> Len(Tr1.lines), bad |-> SetToSeq(bad)]))
=============================================================================
