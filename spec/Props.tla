------------------------------- MODULE Props -------------------------------
(***************************************************************************)
(* Declarative formulas of the listed properties, over OBSERVABLES only.   *)
(* Every formula has the shape  Clause(c, G, o)  where                     *)
(*   c  the abstract chart,                                                *)
(*   o  the observation of ONE public call (same record whether produced   *)
(*      by the operational model in Sismic.tla or parsed from a recorded   *)
(*      execution of the real code in SismicTrace.tla),                    *)
(*   G  ghost state computed from the observations of the earlier calls    *)
(*      (GhostInit / GhostUpdate below).                                   *)
(*                                                                         *)
(* o = [op, ev, par, dl,            -- the call: "exec" | "queue" | "adv"  *)
(*      gv, cfail, mfail,           -- oracle script of the call           *)
(*      clk,                        -- clock value when the call was made  *)
(*      pre, post : [conf, final, time, x],                                *)
(*      some, rtime, steps,         -- returned MacroStep (some = not None)*)
(*      exc, eobj, eidx,            -- raised exception class ("" = none)  *)
(*      log,                        -- chronological effect log (LogE)     *)
(*      tp,                         -- what the sismic.testing predicates  *)
(*                                     answer about the returned MacroStep *)
(*                                     [ent, exi, fir, con, trs] (sets)    *)
(*      opq,                        -- opaque: the chart's code carries no *)
(*                                     probes (recorded runs of foreign    *)
(*                                     charts): log-based clauses are off  *)
(*      stale,                      -- number of MacroSteps returned by    *)
(*                                     EARLIER calls whose content changed *)
(*      ign,                        -- run with ignore_contract=True       *)
(*      hasl2, l2,                  -- a second listener attached after    *)
(*                                     the monitor, and what it received   *)
(*      mt,                         -- clock values the monitor saw        *)
(*      ref : [rel, exc, some, steps, log, conf, final, x]]                *)
(*                                  -- the same call in a TWIN run, for    *)
(*                                     the relational properties (rel=""   *)
(*                                     when there is none)                 *)
(* steps[k] = [ev, par, cls, tr, entered, exited,                          *)
(*             sent : Seq([k, ev, dl, par])]                               *)
(***************************************************************************)
EXTENDS Chart, TLC

-----------------------------------------------------------------------------
(* Ghost state                                                             *)
GhostInit(c) ==
  [pend   |-> <<>>,                            \* queued, not yet consumed, arrival order
   snap   |-> [s \in States(c) |-> {}],        \* active descendants when s was last exited
   entryT |-> [s \in States(c) |-> 0],
   idleT  |-> [s \in States(c) |-> 0],
   oldx   |-> [s \in States(c) |-> -1]]        \* x when s was last entered

PEntry(cls, due, ev, par) == [cls |-> cls, due |-> due, ev |-> ev, par |-> par]

(* the pending entry the documented semantics consumes next at step time t: *)
(* internal before external, then due time, then arrival; 0 if none is due  *)
NextDueIdx(pend, t) ==
  LET due == {i \in DOMAIN pend : pend[i].due <= t}
      key(i) == <<IF pend[i].cls = "i" THEN 0 ELSE 1, pend[i].due, i>>
      less(i, j) == \/ key(i)[1] < key(j)[1]
                    \/ (key(i)[1] = key(j)[1] /\ key(i)[2] < key(j)[2])
                    \/ (key(i)[1] = key(j)[1] /\ key(i)[2] = key(j)[2] /\ i < j)
  IN IF due = {} THEN 0 ELSE CHOOSE i \in due : \A j \in due \ {i} : less(i, j)

Started(st) == st.final \/ st.conf # {}

ContractErrors == {"PreconditionError", "PostconditionError", "InvariantError"}
SelectionErrors == {"NonDeterminismError", "ConflictingTransitionsError"}

(* configuration before micro step k (k = Len+1: after the last one) *)
RECURSIVE ConfBefore(_, _, _)
ConfBefore(conf, steps, k) ==
  IF k <= 1 THEN conf
  ELSE LET m == steps[k - 1]
       IN (ConfBefore(conf, steps, k - 1) \ Range(m.exited)) \cup Range(m.entered)

(* snapshots before micro step k *)
RECURSIVE SnapBefore(_, _, _, _, _)
SnapBefore(c, snap, conf, steps, k) ==
  IF k <= 1 THEN snap
  ELSE LET prev == SnapBefore(c, snap, conf, steps, k - 1)
           cb   == ConfBefore(conf, steps, k - 1)
           ex   == Range(steps[k - 1].exited)
       IN [s \in States(c) |->
             IF s \in ex /\ c.kind[s] = "compound" THEN cb \cap Descendants(c, s) ELSE prev[s]]

Consumed(o) == o.some /\ Len(o.steps) > 0 /\ o.steps[1].ev # 0

GhostUpdate(c, G, o) ==
  IF o.op = "queue" THEN
    [G EXCEPT !.pend = Append(@, PEntry("e", o.pre.time + o.dl, o.ev, o.par))]
  ELSE IF o.op = "exec" /\ o.exc = "" /\ o.some THEN
    LET t    == o.rtime
        exp  == NextDueIdx(G.pend, t)
        m1   == o.steps[1]
        match(i) == G.pend[i].ev = m1.ev /\ G.pend[i].par = m1.par
        cand == {i \in DOMAIN G.pend : match(i)}
        rm   == IF ~Consumed(o) THEN 0
                ELSE IF exp # 0 /\ match(exp) THEN exp
                ELSE IF cand # {} THEN Min(cand) ELSE 0
        p1   == IF rm = 0 THEN G.pend ELSE RemoveAt(G.pend, rm)
        sent == FlattenSeq([k \in DOMAIN o.steps |-> o.steps[k].sent])
        p2   == p1 \o [j \in 1..Len(SelectSeq(sent, LAMBDA e : e.k = "i")) |->
                          LET e == SelectSeq(sent, LAMBDA z : z.k = "i")[j]
                          IN PEntry("i", t + e.dl, e.ev, e.par)]
        ent  == UNION {Range(o.steps[k].entered) : k \in DOMAIN o.steps}
        fired == {c.trans[o.steps[k].tr].src : k \in {j \in DOMAIN o.steps : o.steps[j].tr # 0}}
        ecode == [s \in States(c) |->
                    LET idx == {i \in DOMAIN o.log : o.log[i].k = "ecode" /\ o.log[i].a = s}
                    IN IF idx = {} THEN G.oldx[s] ELSE o.log[Max(idx)].v]
    IN [pend   |-> p2,
        snap   |-> SnapBefore(c, G.snap, o.pre.conf, o.steps, Len(o.steps) + 1),
        entryT |-> [s \in States(c) |-> IF s \in ent THEN t ELSE G.entryT[s]],
        idleT  |-> [s \in States(c) |-> IF s \in ent \cup fired THEN t ELSE G.idleT[s]],
        oldx   |-> ecode]
  ELSE G

-----------------------------------------------------------------------------
(* helpers over one observation                                            *)
IsExec(o) == o.op = "exec"
Returned(o) == o.exc = ""
Trs(o) == SelectSeq([k \in DOMAIN o.steps |-> o.steps[k].tr], LAMBDA i : i # 0)
LogK(o, ks) == SelectSeq(o.log, LAMBDA e : e.k \in ks)

(* value of the guard of transition i at this call, from the oracle script *)
(* and the ghost times -- never from the model's own state                 *)
GuardVal(c, G, o, i) ==
  LET t == c.trans[i] IN
  CASE t.gk = "none"   -> TRUE
    [] t.gk = "oracle" -> o.gv[i]
    [] t.gk = "after"  -> o.clk - t.ga >= G.entryT[t.src]
    [] t.gk = "idle"   -> o.clk - t.ga >= G.idleT[t.src]
    [] t.gk = "afterp" -> o.clk - t.ga >= G.entryT[t.src]
    [] t.gk = "idlep"  -> o.clk - t.ga >= G.idleT[t.src]
    [] t.gk = "active" -> t.ga \in o.pre.conf
    [] t.gk = "xlt"    -> o.pre.x < t.ga

NextEv(G, o) ==
  LET i == NextDueIdx(G.pend, o.clk) IN IF i = 0 THEN PEntry("", 0, 0, 0) ELSE G.pend[i]

(* C01: the set of transitions the documented semantics fires *)
Fired(c, G, o) ==
  LET evn  == NextEv(G, o).ev
      comp(i) == c.trans[i].src \in o.pre.conf /\ (c.trans[i].ev = 0 \/ c.trans[i].ev = evn)
      en(i)   == comp(i) /\ GuardVal(c, G, o, i)
      all  == {i \in DOMAIN c.trans : en(i)}
      pool == IF \E i \in all : c.trans[i].ev = 0 THEN {i \in all : c.trans[i].ev = 0}
                                                 ELSE {i \in all : c.trans[i].ev # 0}
  IN {i \in pool :
        /\ ~\E u \in pool : c.trans[u].src \in Descendants(c, c.trans[i].src)
        /\ ~\E u \in pool : c.trans[u].src = c.trans[i].src /\ c.trans[u].prio > c.trans[i].prio}

(* C04: what the pairwise relation of the fired set demands *)
NDPair(c, a, b) ==
  LET l == LCA(c, c.trans[a].src, c.trans[b].src)
  IN c.trans[a].src = c.trans[b].src \/ l = 0 \/ c.kind[l] # "orthogonal"

ConflictPair(c, a, b) ==
  LET l == LCA(c, c.trans[a].src, c.trans[b].src)
      out(i) == c.trans[i].tgt # 0
                /\ c.trans[i].tgt \notin Subtree(c, ChildToward(c, l, c.trans[i].src))
  IN ~NDPair(c, a, b) /\ (out(a) \/ out(b))

HasND(c, F) == \E a, b \in F : a # b /\ NDPair(c, a, b)
HasConflict(c, F) == \E a, b \in F : a # b /\ ConflictPair(c, a, b)

-----------------------------------------------------------------------------
(* C01 *)
C01_applies(c, G, o) == IsExec(o) /\ Started(o.pre) /\ Returned(o)

C01_fired(c, G, o) ==
  C01_applies(c, G, o) => Range(Trs(o)) = Fired(c, G, o) /\ Len(Trs(o)) = Cardinality(Range(Trs(o)))

C01_event(c, G, o) ==
  C01_applies(c, G, o) =>
    LET F  == Fired(c, G, o)
        nx == NextEv(G, o)
        eventless == \E i \in F : c.trans[i].ev = 0
    IN IF eventless THEN ~Consumed(o)
       ELSE IF nx.cls = "" THEN ~o.some
       ELSE Consumed(o) /\ o.steps[1].ev = nx.ev /\ o.steps[1].par = nx.par

C01_guardsees(c, G, o) ==
  (IsExec(o) /\ Started(o.pre)) =>
    LET nx == NextEv(G, o) IN
    \A j \in DOMAIN o.log : o.log[j].k = "guard" =>
       LET e == o.log[j] IN
       IF c.trans[e.a].ev = 0 THEN e.b = 0 /\ e.c = 0
       ELSE e.b = nx.ev /\ e.c = nx.par /\ e.b = c.trans[e.a].ev

(* a transition's action sees the consumed event, an eventless one sees none *)
C01_actionsees(c, G, o) ==
  (IsExec(o) /\ Started(o.pre)) =>
    \A j \in DOMAIN o.log : o.log[j].k = "acode" =>
       LET e == o.log[j] IN
       IF c.trans[e.a].ev = 0 THEN e.b = 0 /\ e.c = 0
       ELSE e.b = NextEv(G, o).ev /\ e.c = NextEv(G, o).par

-----------------------------------------------------------------------------
(* C02 *)
C02_legal(c, G, o) ==
  Returned(o) => \/ (o.post.conf = {} /\ (o.post.final \/ ~Started(o.post)))
                 \/ (Legal(c, o.post.conf) /\ ~o.post.final)

C02_stable(c, G, o) ==
  (Returned(o) /\ o.post.conf # {}) => Stable(c, o.post.conf)

C02_finalstays(c, G, o) ==
  o.pre.final => (o.post.final /\ o.post.conf = {})

C02_started(c, G, o) ==
  (IsExec(o) /\ Returned(o)) => Started(o.post)

C02_only_exec_moves(c, G, o) ==
  ~IsExec(o) => (o.post.conf = o.pre.conf /\ o.post.final = o.pre.final)

-----------------------------------------------------------------------------
(* C03 *)
CodeSeq(o) ==
  LET cs == LogK(o, {"xcode", "acode", "ecode"})
  IN [j \in DOMAIN cs |-> <<cs[j].k, cs[j].a>>]

RetSeq(o) ==
  FlattenSeq([k \in DOMAIN o.steps |->
     [j \in DOMAIN o.steps[k].exited |-> <<"xcode", o.steps[k].exited[j]>>]
     \o (IF o.steps[k].tr # 0 THEN << <<"acode", o.steps[k].tr>> >> ELSE <<>>)
     \o [j \in DOMAIN o.steps[k].entered |-> <<"ecode", o.steps[k].entered[j]>>]])

C03_applies(c, G, o) == IsExec(o) /\ Returned(o)

(* (a) the code fragments executed, in order, are what the MacroStep says *)
C03_truth(c, G, o) == (C03_applies(c, G, o) /\ ~o.opq) => CodeSeq(o) = RetSeq(o)

C03_conf(c, G, o) ==
  C03_applies(c, G, o) => o.post.conf = ConfBefore(o.pre.conf, o.steps, Len(o.steps) + 1)

SentOfDesc(d) ==
  LET snd == [j \in 1..Len(d.sends) |-> [k |-> "i", ev |-> d.sends[j].ev, dl |-> d.sends[j].dl,
                                         par |-> d.sends[j].par]]
      nts == [j \in 1..Len(d.nots) |-> [k |-> "m", ev |-> d.nots[j], dl |-> 0, par |-> 0]]
  IN IF d.nf = 1 THEN nts \o snd ELSE snd \o nts

ExpectedSent(c, m) ==
  FlattenSeq([j \in DOMAIN m.exited |-> SentOfDesc(c.exit[m.exited[j]])])
  \o (IF m.tr # 0 THEN SentOfDesc(c.trans[m.tr].act) ELSE <<>>)
  \o FlattenSeq([j \in DOMAIN m.entered |-> SentOfDesc(c.entry[m.entered[j]])])

C03_sent(c, G, o) ==
  (C03_applies(c, G, o) /\ ~o.opq) => \A k \in DOMAIN o.steps : o.steps[k].sent = ExpectedSent(c, o.steps[k])

C03_context(c, G, o) ==
  (C03_applies(c, G, o) /\ ~o.opq) =>
    LET cs == LogK(o, {"xcode", "acode", "ecode"})
        inc(e) == CASE e.k = "xcode" -> c.exit[e.a].incx
                    [] e.k = "ecode" -> c.entry[e.a].incx
                    [] e.k = "acode" -> c.trans[e.a].act.incx
        tot == FoldLeft(LAMBDA acc, e : acc + inc(e), 0, cs)
    IN o.post.x = o.pre.x + tot

(* (b) atomicity: the configuration is stable before each further transition *)
C03_atomic(c, G, o) ==
  C03_applies(c, G, o) =>
    \A k \in DOMAIN o.steps :
      (k > 1 /\ o.steps[k].tr # 0) =>
         LET cb == ConfBefore(o.pre.conf, o.steps, k) IN cb = {} \/ Stable(c, cb)

(* ... and default children are entered until stable: the macro step ends in a stable configuration *)
C03_complete(c, G, o) ==
  C03_applies(c, G, o) => (o.post.conf = {} \/ Stable(c, o.post.conf))

(* the scope of one transition: exit set and entry path *)
C03_scope(c, G, o) ==
  C03_applies(c, G, o) =>
    \A k \in DOMAIN o.steps :
      o.steps[k].tr # 0 =>
        LET t  == c.trans[o.steps[k].tr]
            cb == ConfBefore(o.pre.conf, o.steps, k)
        IN IF t.tgt = 0 THEN o.steps[k].exited = <<>> /\ o.steps[k].entered = <<>>
           ELSE LET l  == LCA(c, t.src, t.tgt)
                    ch == ChildToward(c, l, t.src)
                    anc == AncSeq(c, t.tgt)
                    kk  == IF l = 0 THEN Len(anc)
                           ELSE (CHOOSE i \in DOMAIN anc : anc[i] = l) - 1
                IN /\ Range(o.steps[k].exited) = Subtree(c, ch) \cap cb
                   /\ Len(o.steps[k].exited) = Cardinality(Range(o.steps[k].exited))
                   /\ o.steps[k].entered = Reverse(SubSeq(anc, 1, kk)) \o <<t.tgt>>

(* (c) order inside a micro step, order of the transitions *)
C03_order(c, G, o) ==
  C03_applies(c, G, o) =>
    /\ \A k \in DOMAIN o.steps :
         LET ex == o.steps[k].exited
             en == o.steps[k].entered
         IN /\ \A i, j \in DOMAIN ex : i < j => ex[j] \notin Descendants(c, ex[i])
            /\ \A i, j \in DOMAIN ex :
                 (i < j /\ c.parent[ex[i]] = c.parent[ex[j]] /\ c.parent[ex[i]] # 0
                  /\ c.kind[c.parent[ex[i]]] = "orthogonal") => ex[i] < ex[j]
            /\ \A i, j \in DOMAIN en : i < j => en[j] \notin Ancestors(c, en[i])
            /\ \A i, j \in DOMAIN en :
                 (i < j /\ c.parent[en[i]] = c.parent[en[j]] /\ c.parent[en[i]] # 0
                  /\ c.kind[c.parent[en[i]]] = "orthogonal") => en[i] < en[j]
    /\ LET ts == Trs(o)
       IN \A i, j \in DOMAIN ts :
            i < j => LessNegDN(c, c.trans[ts[i]].src, c.trans[ts[j]].src)

(* the MacroStep objects returned by earlier calls still say what they said when returned *)
C03_immutable(c, G, o) == o.stale = 0

(* every stabilisation micro step is one of the four documented kinds *)
C03_stab(c, G, o) ==
  C03_applies(c, G, o) =>
    \A k \in DOMAIN o.steps :
      (o.steps[k].tr = 0 /\ (o.steps[k].entered # <<>> \/ o.steps[k].exited # <<>>)) =>
        LET m  == o.steps[k]
            cb == ConfBefore(o.pre.conf, o.steps, k)
            en == Range(m.entered)
        IN \/ (~Started(o.pre) /\ k = 1 /\ m.entered = <<Root(c)>> /\ m.exited = <<>>)
           \/ (Len(m.exited) = 2 /\ m.exited[2] = Root(c) /\ c.kind[m.exited[1]] = "final"
               /\ c.parent[m.exited[1]] = Root(c) /\ m.entered = <<>>
               /\ cb = {Root(c), m.exited[1]})
           \/ (Len(m.exited) = 1 /\ IsHistory(c, m.exited[1]) /\ m.exited[1] \in cb)
           \/ (m.exited = <<>> /\ \E s \in cb :
                 \/ (c.kind[s] = "compound" /\ Children(c, s) \cap cb = {}
                     /\ m.entered = <<c.initial[s]>>)
                 \/ (c.kind[s] = "orthogonal" /\ en = Children(c, s) \ cb /\ en # {}))

-----------------------------------------------------------------------------
(* C04 *)
C04_kind(c, G, o) ==
  (IsExec(o) /\ Started(o.pre) /\ o.exc \notin (ContractErrors \cup {"PropertyStatechartError"})) =>
    LET F  == Fired(c, G, o)
        nd == HasND(c, F)
        cf == HasConflict(c, F)
    IN CASE nd /\ ~cf -> o.exc = "NonDeterminismError"
         [] cf /\ ~nd -> o.exc = "ConflictingTransitionsError"
         [] nd /\ cf  -> o.exc \in SelectionErrors
         [] OTHER     -> o.exc \notin SelectionErrors

C04_unchanged(c, G, o) ==
  (IsExec(o) /\ o.exc \in SelectionErrors) =>
    /\ o.post.conf = o.pre.conf /\ o.post.x = o.pre.x /\ o.post.final = o.pre.final
    /\ LogK(o, {"xcode", "acode", "ecode", "consumed", "xmeta", "emeta", "tmeta", "sent"}) = <<>>

-----------------------------------------------------------------------------
(* C05 *)
C05_one_event(c, G, o) ==
  (IsExec(o) /\ Returned(o) /\ o.some) =>
    \A k \in DOMAIN o.steps : o.steps[k].ev \in {0, o.steps[1].ev}
                              /\ (o.steps[k].ev # 0 => o.steps[k].par = o.steps[1].par)

C05_consume(c, G, o) ==
  (IsExec(o) /\ Returned(o) /\ Started(o.pre)) =>
    LET nx == NextEv(G, o)
        eventless == \E k \in DOMAIN o.steps : o.steps[k].tr # 0 /\ c.trans[o.steps[k].tr].ev = 0
    IN IF eventless THEN ~Consumed(o)
       ELSE IF nx.cls = "" THEN ~o.some                     \* nothing due: nothing happens
       ELSE Consumed(o) /\ o.steps[1].ev = nx.ev /\ o.steps[1].par = nx.par

(* the init step consumes nothing *)
C05_init(c, G, o) ==
  (IsExec(o) /\ Returned(o) /\ ~Started(o.pre)) => (o.some /\ ~Consumed(o))

(* the class (internal/external) of the consumed event, as reported by the step *)
C05_class(c, G, o) ==
  (IsExec(o) /\ Returned(o) /\ Started(o.pre) /\ Consumed(o) /\ NextEv(G, o).cls # "") =>
     o.steps[1].cls = NextEv(G, o).cls

-----------------------------------------------------------------------------
(* C06 *)
C06_restore(c, G, o) ==
  (IsExec(o) /\ Returned(o)) =>
    \A k \in DOMAIN o.steps :
      LET m == o.steps[k] IN
      (m.tr = 0 /\ Len(m.exited) = 1 /\ IsHistory(c, m.exited[1])) =>
        LET h  == m.exited[1]
            p  == c.parent[h]
            sn == SnapBefore(c, G.snap, o.pre.conf, o.steps, k)[p]
            want == IF sn = {} THEN {c.memory[h]}
                    ELSE IF c.kind[h] = "deep" THEN sn ELSE sn \cap Children(c, p)
        IN /\ Range(m.entered) = want
           /\ Len(m.entered) = Cardinality(want)
           /\ \A i, j \in DOMAIN m.entered : i < j => m.entered[j] \notin Ancestors(c, m.entered[i])

(* after a deep restoration the sub-configuration is the snapshot *)
C06_deep_conf(c, G, o) ==
  (IsExec(o) /\ Returned(o)) =>
    \A k \in DOMAIN o.steps :
      LET m == o.steps[k] IN
      (m.tr = 0 /\ Len(m.exited) = 1 /\ c.kind[m.exited[1]] = "deep") =>
        LET p  == c.parent[m.exited[1]]
            sn == SnapBefore(c, G.snap, o.pre.conf, o.steps, k)[p]
        IN sn # {} => ConfBefore(o.pre.conf, o.steps, k + 1) \cap Descendants(c, p) = sn

-----------------------------------------------------------------------------
(* C13 *)
C13_frozen(c, G, o) ==
  IsExec(o) =>
    /\ o.post.time = o.clk
    /\ (Returned(o) /\ o.some) => o.rtime = o.clk
    /\ \A j \in DOMAIN o.log : o.log[j].t = o.clk
    /\ \A j \in DOMAIN o.log : o.log[j].k = "start" => o.log[j].a = o.clk

C13_only_exec(c, G, o) == ~IsExec(o) => o.post.time = o.pre.time

C13_guards(c, G, o) ==
  (IsExec(o) /\ Started(o.pre)) =>
    \A j \in DOMAIN o.log :
      (o.log[j].k = "guard" /\ c.trans[o.log[j].a].gk \in {"after", "idle", "active"}) =>
         o.log[j].v = (IF GuardVal(c, G, o, o.log[j].a) THEN 1 ELSE 0)

-----------------------------------------------------------------------------
(* Relational clauses: the same call observed in a twin run (o.ref)        *)
NoRef == [rel |-> "", exc |-> "", some |-> FALSE, steps |-> <<>>, log |-> <<>>, conf |-> {},
          final |-> FALSE, x |-> 0]

NoGuardsL(lg) == SelectSeq(lg, LAMBDA e : e.k # "guard")
GuardsL(lg) == Range(SelectSeq(lg, LAMBDA e : e.k = "guard"))
NoCondL(lg) == SelectSeq(lg, LAMBDA e : e.k \notin {"cond", "ctime"})
IsMeta(e) == e.k \in {"start", "consumed", "xmeta", "tmeta", "emeta", "sent", "user", "end"}
MetasL(lg) == SelectSeq(lg, IsMeta)

(* the twin observed exactly the same call: same macro step, same code and *)
(* meta-events in the same order, same configuration and context, same     *)
(* error class (guard evaluation order inside a priority class is free)    *)
RefEq(o) ==
  /\ o.exc = o.ref.exc
  /\ o.some = o.ref.some
  /\ o.steps = o.ref.steps
  /\ NoGuardsL(o.log) = NoGuardsL(o.ref.log)
  /\ GuardsL(o.log) = GuardsL(o.ref.log)
  /\ o.post.conf = o.ref.conf /\ o.post.final = o.ref.final /\ o.post.x = o.ref.x

Rel(name, o) == o.ref.rel = name => RefEq(o)

-----------------------------------------------------------------------------
(* C08 *)
IsCode(e) == e.k \in {"xcode", "acode", "ecode"}

(* code fragments and contract conditions of kind ck, in the documented order, *)
(* for the macro step the call returned                                        *)
CondsOf(ck, owner, n) == [j \in 1..n |-> <<"cond", ck, owner, j>>]

ExpectedCK(c, o, ck) ==
  FlattenSeq([k \in DOMAIN o.steps |->
    LET m == o.steps[k] IN
    FlattenSeq([j \in DOMAIN m.exited |->
        << <<"xcode", m.exited[j], 0, 0>> >>
        \o (IF ck = 2 THEN CondsOf(2, m.exited[j], c.spost[m.exited[j]]) ELSE <<>>)])
    \o (IF m.tr # 0
          THEN (IF ck = 1 THEN CondsOf(1, -m.tr, c.trans[m.tr].pre) ELSE <<>>)
               \o (IF ck = 3 THEN CondsOf(3, -m.tr, c.trans[m.tr].inv) ELSE <<>>)
               \o << <<"acode", m.tr, 0, 0>> >>
               \o (IF ck = 2 THEN CondsOf(2, -m.tr, c.trans[m.tr].post) ELSE <<>>)
               \o (IF ck = 3 THEN CondsOf(3, -m.tr, c.trans[m.tr].inv) ELSE <<>>)
          ELSE <<>>)
    \o FlattenSeq([j \in DOMAIN m.entered |->
        (IF ck = 1 THEN CondsOf(1, m.entered[j], c.spre[m.entered[j]]) ELSE <<>>)
        \o << <<"ecode", m.entered[j], 0, 0>> >>])])
  \o (IF ck = 3
        THEN LET act == SortDN(c, o.post.conf)
             IN FlattenSeq([j \in DOMAIN act |-> CondsOf(3, act[j], c.sinv[act[j]])])
        ELSE <<>>)

ObservedCK(o, ck) ==
  LET sel == SelectSeq(o.log, LAMBDA e : IsCode(e) \/ (e.k = "cond" /\ e.a = ck))
  IN [j \in DOMAIN sel |->
        IF sel[j].k = "cond" THEN <<"cond", sel[j].a, sel[j].b, sel[j].c>>
                             ELSE <<sel[j].k, sel[j].a, 0, 0>>]

C08_points(c, G, o) ==
  (IsExec(o) /\ Returned(o) /\ ~o.ign /\ ~o.opq) =>
    \A ck \in 1..3 : ObservedCK(o, ck) = ExpectedCK(c, o, ck)

CondErrOf(ck) == CASE ck = 1 -> "PreconditionError" [] ck = 2 -> "PostconditionError"
                   [] ck = 3 -> "InvariantError" [] OTHER -> "?"

(* the first false condition raises at once, with the right class, owner and condition *)
C08_firstfalse(c, G, o) ==
  (IsExec(o) /\ ~o.opq) =>
    /\ \A j \in DOMAIN o.log :
         (o.log[j].k = "cond" /\ o.log[j].v = 0) =>
            /\ j = Len(o.log)
            /\ o.exc = CondErrOf(o.log[j].a) /\ o.eobj = o.log[j].b /\ o.eidx = o.log[j].c
    /\ o.exc \in ContractErrors =>
         (Len(o.log) > 0 /\ o.log[Len(o.log)].k = "cond" /\ o.log[Len(o.log)].v = 0)

(* what ran before the failure is what runs without it, and nothing runs after *)
C08_prefix(c, G, o) ==
  (IsExec(o) /\ o.ref.rel = "nofail" /\ o.cfail # 0) =>
    LET nc == Len(SelectSeq(o.ref.log, LAMBDA e : e.k = "cond")) IN
    IF o.cfail > nc THEN o.exc = o.ref.exc /\ o.log = o.ref.log
    ELSE /\ o.exc \in ContractErrors
         /\ Len(o.log) <= Len(o.ref.log)
         /\ \A j \in 1..(Len(o.log) - 1) : o.log[j] = o.ref.log[j]
         /\ Len(o.log) > 0 /\ o.log[Len(o.log)] = [o.ref.log[Len(o.log)] EXCEPT !.v = 0]

(* __old__ : the context when the state was entered / the transition started *)
C08_old(c, G, o) ==
  IsExec(o) =>
    \A j \in DOMAIN o.log :
      LET e == o.log[j] IN
      (e.k = "cond") =>
        IF e.a = 1 THEN e.d = -1
        ELSE IF e.b > 0 THEN
          LET ent == {i \in 1..(j - 1) : o.log[i].k = "ecode" /\ o.log[i].a = e.b}
          IN e.d = (IF ent = {} THEN G.oldx[e.b] ELSE o.log[Max(ent)].v)
        ELSE
          LET nxt == {i \in (j + 1)..Len(o.log) : IsCode(o.log[i])}
              prv == {i \in 1..(j - 1) : IsCode(o.log[i])}
              isact(i) == o.log[i].k = "acode" /\ o.log[i].a = -e.b
          IN IF prv # {} /\ isact(Max(prv)) THEN e.d = o.log[Max(prv)].v      \* after the action
             ELSE IF nxt # {} /\ isact(Min(nxt)) THEN e.d = o.log[Min(nxt)].v  \* before it
             ELSE TRUE

-----------------------------------------------------------------------------
(* C09 *)
C09_ignored(c, G, o) ==
  o.ign => (LogK(o, {"cond", "ctime"}) = <<>> /\ o.exc \notin ContractErrors)

(* contracts on, nothing fails  ==  ignore_contract=True, except for the conditions themselves *)
C09_transparent(c, G, o) ==
  (o.ref.rel = "ignore" /\ o.exc \notin ContractErrors) =>
    /\ o.exc = o.ref.exc /\ o.some = o.ref.some /\ o.steps = o.ref.steps
    /\ NoGuardsL(NoCondL(o.log)) = NoGuardsL(o.ref.log)
    /\ GuardsL(o.log) = GuardsL(o.ref.log)
    /\ o.post.conf = o.ref.conf /\ o.post.final = o.ref.final /\ o.post.x = o.ref.x

-----------------------------------------------------------------------------
(* C10 *)
CM(e) == <<e.k, e.a, e.b, e.c>>

ExpectedCM(c, o) ==
  << <<"start", o.clk, 0, 0>> >>
  \o (IF Consumed(o) THEN << <<"consumed", o.steps[1].ev, o.steps[1].par, 0>> >> ELSE <<>>)
  \o FlattenSeq([k \in DOMAIN o.steps |->
       LET m == o.steps[k] IN
       FlattenSeq([j \in DOMAIN m.exited |->
           << <<"xcode", m.exited[j], 0, 0>>, <<"xmeta", m.exited[j], 0, 0>> >>])
       \o (IF m.tr # 0
             THEN << <<"acode", m.tr, m.ev, m.par>>,
                     <<"tmeta", c.trans[m.tr].src, c.trans[m.tr].tgt, m.ev>> >>
             ELSE <<>>)
       \o FlattenSeq([j \in DOMAIN m.entered |->
           << <<"ecode", m.entered[j], 0, 0>>, <<"emeta", m.entered[j], 0, 0>> >>])
       \o [j \in DOMAIN m.sent |->
             IF m.sent[j].k = "i" THEN <<"sent", m.sent[j].ev, m.sent[j].dl, m.sent[j].par>>
                                  ELSE <<"user", m.sent[j].ev, 0, 0>>]])
  \o << <<"end", 0, 0, 0>> >>

C10_metas(c, G, o) ==
  (IsExec(o) /\ Returned(o) /\ o.hasl2 /\ ~o.opq) =>
    LET sel == SelectSeq(o.log, LAMBDA e : IsCode(e) \/ IsMeta(e))
    IN [j \in DOMAIN sel |-> CM(sel[j])] = ExpectedCM(c, o)

(* every listener receives every meta-event once, in order; nothing after a monitor failed *)
C10_listeners(c, G, o) ==
  (IsExec(o) /\ o.hasl2) =>
    IF o.exc = "PropertyStatechartError" THEN o.l2 = Front(MetasL(o.log))
    ELSE o.l2 = MetasL(o.log)

C10_failfast(c, G, o) ==
  (IsExec(o) /\ o.ref.rel = "nofail" /\ o.mfail # 0) =>
    LET nm == Len(MetasL(o.ref.log)) IN
    IF o.mfail > nm THEN o.exc = o.ref.exc /\ o.log = o.ref.log
    ELSE /\ o.exc = "PropertyStatechartError"
         /\ Len(MetasL(o.log)) = o.mfail
         /\ Len(o.log) > 0 /\ IsMeta(o.log[Len(o.log)])
         /\ Len(o.log) <= Len(o.ref.log)
         /\ \A j \in 1..Len(o.log) : o.log[j] = o.ref.log[j]

C10_noerror(c, G, o) ==
  (IsExec(o) /\ o.mfail = 0 /\ ~o.opq) => o.exc # "PropertyStatechartError"

C10_clock(c, G, o) == IsExec(o) => \A j \in DOMAIN o.mt : o.mt[j] = o.clk

(* C14, second sentence: a SynchronizedClock (the listeners read one at every delivery, a bound *)
(* property statechart runs on one) always shows the time of the interpreter's current step    *)
C14_sync(c, G, o) ==
  IsExec(o) => /\ \A j \in DOMAIN o.mt : o.mt[j] = o.clk
               /\ \A j \in DOMAIN o.log : IsMeta(o.log[j]) => o.log[j].t = o.clk
               /\ \A j \in DOMAIN o.l2 : o.l2[j].t = o.clk
               /\ o.post.time = o.clk

-----------------------------------------------------------------------------
(* C19, last sentence: the sismic.testing predicates agree with the macro step *)
TpOf(steps) ==
  LET sent == SelectSeq(FlattenSeq([k \in DOMAIN steps |-> steps[k].sent]), LAMBDA e : e.k = "i")
  IN [ent |-> UNION {Range(steps[k].entered) : k \in DOMAIN steps},
      exi |-> UNION {Range(steps[k].exited) : k \in DOMAIN steps},
      fir |-> {<<sent[j].ev, 0>> : j \in DOMAIN sent} \cup {<<sent[j].ev, sent[j].par>> : j \in DOMAIN sent},
      con |-> {steps[k].ev : k \in DOMAIN steps} \ {0},
      trs |-> {steps[k].tr : k \in DOMAIN steps} \ {0}]

C19_testing(c, G, o) ==
  (IsExec(o) /\ Returned(o) /\ o.some /\ ~o.opq) =>
    LET w == TpOf(o.steps) IN
    /\ o.tp.ent = w.ent /\ o.tp.exi = w.exi /\ o.tp.con = w.con /\ o.tp.trs = w.trs
    /\ o.tp.fir = {p \in w.fir : p[2] \in {0, 7}}

(* after(1) / idle(1) as seen by post-conditions and invariants ("ctime" entries): at least one time   *)
(* unit since the state (the owner, or the source of the owning transition) was entered / was entered *)
(* or last fired a transition -- taking into account what already happened earlier in this call       *)
C13_contracts(c, G, o) ==
  (IsExec(o) /\ Started(o.pre)) =>
    \A j \in DOMAIN o.log :
      o.log[j].k = "ctime" =>
        LET e == o.log[j]
            s == IF e.a > 0 THEN e.a ELSE c.trans[-e.a].src
            entHere == \E i \in 1..(j - 1) : o.log[i].k = "ecode" /\ o.log[i].a = s
            firedHere == \E i \in 1..(j - 1) : o.log[i].k = "tmeta" /\ o.log[i].a = s
            et == IF entHere THEN o.clk ELSE G.entryT[s]
            it == IF entHere \/ firedHere THEN o.clk ELSE G.idleT[s]
        IN /\ e.b = (IF o.clk - 1 >= et THEN 1 ELSE 0)
           /\ e.c = (IF o.clk - 1 >= it THEN 1 ELSE 0)

(* Interpreter.execute(max_steps) is repeated execute_once: same macro steps, same effects, as the   *)
(* twin run that calls execute_once itself; never more than max_steps macro steps (o.eidx of them)   *)
C19_execute(c, G, o) ==
  o.op = "execute" =>
    /\ (o.ev > 0 => o.eidx <= o.ev)
    /\ (o.ref.rel = "execute" => RefEq(o))

-----------------------------------------------------------------------------
(* The set of failing clauses, as <<property, clause>> pairs                *)
Check(name, ok) == IF ok THEN {} ELSE {name}

Bad(c, G, o) ==
  UNION {
    Check(<<"C01", "fired">>, C01_fired(c, G, o)),
    Check(<<"C01", "event">>, C01_event(c, G, o)),
    Check(<<"C01", "guardsees">>, C01_guardsees(c, G, o)),
    Check(<<"C01", "actionsees">>, C01_actionsees(c, G, o)),
    Check(<<"C02", "legal">>, C02_legal(c, G, o)),
    Check(<<"C02", "stable">>, C02_stable(c, G, o)),
    Check(<<"C02", "finalstays">>, C02_finalstays(c, G, o)),
    Check(<<"C02", "started">>, C02_started(c, G, o)),
    Check(<<"C02", "onlyexec">>, C02_only_exec_moves(c, G, o)),
    Check(<<"C03", "truth">>, C03_truth(c, G, o)),
    Check(<<"C03", "conf">>, C03_conf(c, G, o)),
    Check(<<"C03", "sent">>, C03_sent(c, G, o)),
    Check(<<"C03", "context">>, C03_context(c, G, o)),
    Check(<<"C03", "atomic">>, C03_atomic(c, G, o)),
    Check(<<"C03", "complete">>, C03_complete(c, G, o)),
    Check(<<"C03", "scope">>, C03_scope(c, G, o)),
    Check(<<"C03", "order">>, C03_order(c, G, o)),
    Check(<<"C03", "stab">>, C03_stab(c, G, o)),
    Check(<<"C03", "immutable">>, C03_immutable(c, G, o)),
    Check(<<"C04", "kind">>, C04_kind(c, G, o)),
    Check(<<"C04", "unchanged">>, C04_unchanged(c, G, o)),
    Check(<<"C05", "oneevent">>, C05_one_event(c, G, o)),
    Check(<<"C05", "consume">>, C05_consume(c, G, o)),
    Check(<<"C05", "init">>, C05_init(c, G, o)),
    Check(<<"C05", "class">>, C05_class(c, G, o)),
    Check(<<"C06", "restore">>, C06_restore(c, G, o)),
    Check(<<"C06", "deepconf">>, C06_deep_conf(c, G, o)),
    Check(<<"C07", "variant">>, Rel("variant", o)),
    Check(<<"C08", "points">>, C08_points(c, G, o)),
    Check(<<"C08", "firstfalse">>, C08_firstfalse(c, G, o)),
    Check(<<"C08", "prefix">>, C08_prefix(c, G, o)),
    Check(<<"C08", "old">>, C08_old(c, G, o)),
    Check(<<"C09", "ignored">>, C09_ignored(c, G, o)),
    Check(<<"C09", "transparent">>, C09_transparent(c, G, o)),
    Check(<<"C10", "metas">>, C10_metas(c, G, o)),
    Check(<<"C10", "listeners">>, C10_listeners(c, G, o)),
    Check(<<"C10", "failfast">>, C10_failfast(c, G, o)),
    Check(<<"C10", "noerror">>, C10_noerror(c, G, o)),
    Check(<<"C10", "clock">>, C10_clock(c, G, o)),
    Check(<<"C10", "nomon">>, Rel("nomon", o)),
    Check(<<"C14", "sync">>, C14_sync(c, G, o)),
    Check(<<"C11", "reimport">>, Rel("reimport", o)),
    Check(<<"C17", "rename">>, Rel("rename", o)),
    Check(<<"C17", "copy">>, Rel("copy", o)),
    Check(<<"C18", "fork">>, Rel("fork", o)),
    Check(<<"C18", "undisturbed">>, Rel("undisturbed", o)),
    Check(<<"C19", "testing">>, C19_testing(c, G, o)),
    Check(<<"C19", "execute">>, C19_execute(c, G, o)),
    Check(<<"C13", "frozen">>, C13_frozen(c, G, o)),
    Check(<<"C13", "onlyexec">>, C13_only_exec(c, G, o)),
    Check(<<"C13", "guards">>, C13_guards(c, G, o)),
    Check(<<"C13", "contracts">>, C13_contracts(c, G, o))
  }

BadOf(p, c, G, o) == {b \in Bad(c, G, o) : b[1] = p}
=============================================================================
