------------------------------ MODULE ModelMC ------------------------------
(* Design check and edge emission for Model.tla, starting from a family of *)
(* valid statecharts (ChartsData!Charts, n <= M) and from the empty one.   *)
EXTENDS Model, ChartsData, Json

CONSTANTS MaxLen, MaxTrans, EmitEdges, Ops
VARIABLES ci, T, last, hist
vars == <<ci, T, last, hist>>
View == <<ci, T>>

OfChart(c) ==
  [names |-> 1..c.n,
   kind |-> [s \in U |-> IF s <= c.n THEN c.kind[s] ELSE ""],
   parent |-> [s \in U |-> IF s <= c.n THEN c.parent[s] ELSE -1],
   children |-> [s \in U |-> SetToSortSeq({x \in 1..c.n : c.parent[x] = s}, LAMBDA a, b : a < b)],
   roots |-> SetToSortSeq({x \in 1..c.n : c.parent[x] = 0}, LAMBDA a, b : a < b),
   initial |-> [s \in U |-> IF s <= c.n THEN c.initial[s] ELSE 0],
   memory |-> [s \in U |-> IF s <= c.n THEN c.memory[s] ELSE 0],
   trans |-> [i \in DOMAIN c.trans |-> Tr(c.trans[i].src, c.trans[i].tgt, c.trans[i].ev)]]

Init ==
  /\ ci \in 0..Len(Charts)
  /\ T = IF ci = 0 THEN Empty ELSE OfChart(Charts[ci])
  /\ last = [op |-> "none", res |-> "ok"]
  /\ hist = <<>>

Fresh == IF U \ T.names = {} THEN Unk ELSE Min(U \ T.names)
SomeName == IF T.names = {} THEN Unk ELSE Min(T.names)
Existing == T.names \cup {Unk}

Do(op, a, b, cc) ==
  LET r == Apply(T, op, a, b, cc) IN
  /\ T' = r.T
  /\ last' = [op |-> op, res |-> r.res]
  /\ hist' = Append(hist, [op |-> op, a |-> a, b |-> b, c |-> cc])
  /\ UNCHANGED ci

Next ==
  \/ "add_state" \in Ops /\ \E n \in ((U \ T.names) \cup {SomeName}) \ {Unk}, k \in Kinds, p \in T.names \cup {0, Unk} : Do("add_state", n, k, p)
  \/ "remove_state" \in Ops /\ \E n \in Existing : Do("remove_state", n, 0, 0)
  \/ "rename_state" \in Ops /\ \E o \in Existing, n \in {Fresh, SomeName} \ {Unk} : Do("rename_state", o, n, 0)
  \/ "rename_state" \in Ops /\ \E o \in Existing : Do("rename_state", o, o, 0)
  \/ "move_state" \in Ops /\ \E n \in Existing, p \in Existing : Do("move_state", n, p, 0)
  \/ "add_transition" \in Ops /\ Len(T.trans) < MaxTrans
       /\ \E s \in Existing, t \in T.names \cup {0, Unk}, e \in {0, 1, 11} : Do("add_transition", Tr(s, t, e), 0, 0)
  \/ "remove_transition" \in Ops /\ \E tr \in Range(T.trans) \cup {Tr(SomeName, 0, 7)} : Do("remove_transition", tr, 0, 0)
  \/ "rotate_transition" \in Ops
       /\ \E tr \in Range(T.trans) \cup {Tr(SomeName, 0, 7)}, ns \in T.names \cup {Unk, NoChange},
             nt \in {0, Unk, NoChange} \cup (IF T.names = {} THEN {} ELSE {Min(T.names), Max(T.names)}) :
               Do("rotate_transition", tr, ns, nt)
  \/ "set_initial" \in Ops /\ \E s \in {x \in T.names : T.kind[x] = "compound"} :
        \E x \in Range(T.children[s]) : Do("set_initial", s, x, 0)
  \/ "set_memory" \in Ops /\ \E h \in {x \in T.names : T.kind[x] \in History /\ T.parent[x] > 0} :
        \E x \in Range(T.children[T.parent[h]]) \ {h} : Do("set_memory", h, x, 0)

Spec == Init /\ [][Next]_vars
Bounded == Len(hist) <= MaxLen
Emit == EmitEdges => PrintT(ToJson([ci |-> ci, hist |-> hist']))

InvSound == Sound(T)
FailedUnchanged == [][last'.res # "ok" => T' = T]_vars
=============================================================================
