---------------------------- MODULE SismicTrace ----------------------------
(***************************************************************************)
(* Code -> spec: evaluates the declarative formulas of Props.tla on        *)
(* recorded executions of the real interpreter (harness/driver.py), and    *)
(* runs the operational model of Semantics.tla in lock step to report      *)
(* divergences.  Thousands of traces per JVM: the tree index is chosen in  *)
(* Init and TLC walks each tree of recorded lines.                         *)
(*                                                                         *)
(* Trace file (IOEnv.TRACE_FILE): JSON array of TREES of observations      *)
(* (histories that share a prefix share the nodes of that prefix, so every *)
(* recorded line is evaluated once):                                       *)
(*   [ci, opt : [ignore, metas], roots : Seq(node index),                  *)
(*    nodes : Seq([uid, kids : Seq(node index), line : observation])]      *)
(* An observation line has the fields of Props.tla's o, with sets written  *)
(* as JSON lists.  One JSON report per node is printed when it is reached: *)
(* the failing clauses of that line and whether the operational model      *)
(* diverged from the real code at that line.                               *)
(***************************************************************************)
EXTENDS Semantics, Props, ChartsData, Json, IOUtils

Traces == JsonDeserialize(IOEnv.TRACE_FILE)

VARIABLES tid, nd, G, M, div
tvars == <<tid, nd, G, M, div>>

Tr == Traces[tid]
c == Charts[Tr.ci]

StOf(p) == [conf |-> Range(p.conf), final |-> p.final, time |-> p.time, x |-> p.x]

ToObs(L) ==
  [op |-> L.op, ev |-> L.ev, par |-> L.par, dl |-> L.dl,
   gv |-> L.gv, cfail |-> L.cfail, mfail |-> L.mfail, clk |-> L.clk,
   pre |-> StOf(L.pre), post |-> StOf(L.post),
   some |-> L.some, rtime |-> L.rtime, steps |-> L.steps,
   exc |-> L.exc, eobj |-> L.eobj, eidx |-> L.eidx, log |-> L.log,
   ign |-> L.ign, stale |-> L.stale, opq |-> L.opq,
   tp |-> [ent |-> Range(L.tp.ent), exi |-> Range(L.tp.exi), fir |-> Range(L.tp.fir), con |-> Range(L.tp.con), trs |-> Range(L.tp.trs)], hasl2 |-> L.hasl2, l2 |-> L.l2, mt |-> L.mt,
   ref |-> [rel |-> L.ref.rel, exc |-> L.ref.exc, some |-> L.ref.some, steps |-> L.ref.steps,
            log |-> L.ref.log, conf |-> Range(L.ref.conf), final |-> L.ref.final, x |-> L.ref.x]]

NoGuards(lg) == SelectSeq(lg, LAMBDA e : e.k # "guard")
Guards(lg) == Range(SelectSeq(lg, LAMBDA e : e.k = "guard"))

(* the operational model, one call *)
ModelCall(o) ==
  IF o.op = "queue" THEN [S |-> QueueExternal(M, o.ev, o.par, o.dl), same |-> TRUE, pred |-> <<>>]
  ELSE IF o.op = "exec" THEN
    LET orc == [gv |-> o.gv, cfail |-> o.cfail, mfail |-> o.mfail]
        A   == MacroStep(c, Tr.opt, orc, M, o.clk)
        St(s) == [conf |-> s.conf, final |-> Final(s), time |-> s.time, x |-> s.x]
        same == /\ o.exc = A.exc
                /\ o.post = St(A.S)
                /\ NoGuards(o.log) = NoGuards(A.log)     \* the order of guard evaluation inside a
                /\ Guards(o.log) = Guards(A.log)         \* priority class is declaration order: free
                /\ (A.exc = "" => (o.steps = A.steps /\ o.some = (A.steps # <<>>)))
                /\ (A.exc # "" => (o.eobj = A.eobj /\ o.eidx = A.eidx))
    IN [S |-> A.S, same |-> same,
        pred |-> [exc |-> A.exc, conf |-> SetToSeq(A.S.conf), x |-> A.S.x, steps |-> A.steps,
                  log |-> A.log, eobj |-> A.eobj, eidx |-> A.eidx]]
  ELSE IF o.op = "execute" THEN
    LET orc == [gv |-> o.gv, cfail |-> 0, mfail |-> 0]
        A   == ExecuteMany(c, Tr.opt, orc, M, o.clk, o.ev)
        same == /\ o.exc = A.exc /\ o.post.conf = A.S.conf /\ o.post.x = A.S.x /\ o.eidx = A.n
                /\ o.steps = (IF A.exc = "" THEN A.steps ELSE <<>>)
                /\ NoGuards(o.log) = NoGuards(A.log)
    IN [S |-> A.S, same |-> same,
        pred |-> [exc |-> A.exc, conf |-> SetToSeq(A.S.conf), x |-> A.S.x, steps |-> A.steps, log |-> A.log,
                  eobj |-> A.n, eidx |-> A.n]]
  ELSE [S |-> M, same |-> TRUE, pred |-> <<>>]

TInit ==
  /\ tid \in DOMAIN Traces
  /\ nd = 0
  /\ G = GhostInit(Charts[Traces[tid].ci])
  /\ M = InitState(Charts[Traces[tid].ci])
  /\ div = FALSE

Visit(k) ==
  LET N == Tr.nodes[k]
      o == ToObs(N.line)
      r == IF div THEN [S |-> M, same |-> TRUE, pred |-> <<>>] ELSE ModelCall(o)
      b == Bad(c, G, o)
  IN /\ nd' = k
     /\ G' = GhostUpdate(c, G, o)
     /\ M' = r.S
     /\ div' = (div \/ ~r.same)
     /\ PrintT(ToJson([uid |-> N.uid, div |-> IF r.same THEN 0 ELSE 1, bad |-> SetToSeq(b),
                        pred |-> IF r.same THEN <<>> ELSE r.pred]))
     /\ UNCHANGED tid

TNext ==
  \E k \in Range(IF nd = 0 THEN Tr.roots ELSE Tr.nodes[nd].kids) : Visit(k)

TSpec == TInit /\ [][TNext]_tvars
=============================================================================
