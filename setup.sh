#!/bin/sh
# Offline sanity: everything the checks need is already on disk.
set -e
command -v java >/dev/null
test -f /opt/veriftools/tla/tla2tools.jar
PYTHONPATH=/repo /venv/bin/python -c "import sismic, behave, ruamel.yaml, schema"
mkdir -p "$(dirname "$0")/.work" "$(dirname "$0")/evidence" "$(dirname "$0")/replays"
echo setup ok
