"""C11 (round trip) and C12 (import validation): Yaml.tla / YamlMC.tla -> real import/export -> YamlTrace.tla."""
import json
import os
import random
import time

from sismic.io import import_from_yaml, export_to_yaml
from sismic.exceptions import StatechartError
from sismic.model import Transition

import gen_charts as gc
import tlc
import evidence as evd
import model_edit
import realize

HI, LO, BOGUS = 1000, -1000, 999
M = 9


# ------------------------------------------------------------------ C12: rendering abstract documents

def q(s):
    return '"' + s + '"'


def render(doc):
    nodes = doc['nodes'] if isinstance(doc['nodes'], list) else []
    out = ['statechart:']
    if doc['hasName']:
        out.append('  name: some statechart')
    if doc['extra']:
        out.append('  bogus key: 1')

    def kids(i, sec):
        return [j for j, n in enumerate(nodes, 1) if n['up'] == i and n['sec'] == sec]

    def emit(i, ind, first):
        n = nodes[i - 1]
        pad = ' ' * ind
        lines = []
        if n['name']:
            lines.append('name: ' + q('n%d' % n['name']))
        if n['type']:
            lines.append('type: ' + n['type'])
        if n['initial']:
            lines.append('initial: ' + q('n%d' % n['initial']))
        if n['memory']:
            lines.append('memory: ' + q('n%d' % n['memory']))
        if n['extra']:
            lines.append('bogus key: 1')
        if not lines:
            lines.append('on entry: pass')
        res = [first + lines[0]] + [pad + x for x in lines[1:]]
        tr = n['trans'] if isinstance(n['trans'], list) else []
        if tr:
            res.append(pad + 'transitions:')
            for t in tr:
                items = ['event: e%d' % t['ev']] if t['ev'] else ['action: pass']
                if t['tgt'] == -1:
                    items.append("target: ''")
                elif t['tgt'] <= -100:
                    pads = [(' ', ' '), ('', ' '), ('\\t', '')][(-t['tgt']) % 3]
                    items.append('target: ' + q(pads[0] + 'n%d' % (-100 - t['tgt']) + pads[1]))
                elif t['tgt']:
                    items.append('target: ' + q('n%d' % t['tgt']))
                if t['prio']:
                    items.append('priority: ' + {HI: 'high', LO: 'low', BOGUS: 'sometimes'}.get(t['prio'], str(t['prio'])))
                if t['extra']:
                    items.append('bogus: 1')
                res.append(pad + '  - ' + items[0])
                res += [pad + '    ' + x for x in items[1:]]
        for sec, key in (('s', 'states:'), ('p', 'parallel states:')):
            ks = kids(i, sec)
            if ks:
                res.append(pad + key)
                for j in ks:
                    res += emit(j, ind + 4, pad + '  - ')
        return res

    if doc['hasRoot'] and nodes:
        out.append('  root state:')
        out += emit(1, 4, '    ')
    return '\n'.join(out) + '\n'


CANARY = """statechart:
  name: canary
  root state:
    name: n1
    initial: n2
    states:
      - name: n2
        transitions:
          - target: n3
            event: e1
      - name: n3
"""


def canary_ok():
    """A fixed valid document imported after every other one: imports must not influence each other."""
    try:
        sc = import_from_yaml(CANARY)
        return sorted(sc.states) == ['n1', 'n2', 'n3'] and len(sc.transitions) == 1 and sc.parent_for('n3') == 'n1'
    except Exception:
        return False


def import_line(doc, ident):
    text = render(doc)
    outcome, struct, prios = 'ok', model_edit.struct_of(model_edit.Statechart('x'), M), []
    try:
        with model_edit.driver.watchdog():
            sc = import_from_yaml(text)
            struct = model_edit.struct_of(sc, M)
            prios = [t.priority for t in sc.transitions]
    except StatechartError:
        outcome = 'StatechartError'
    except model_edit.driver.Hang:
        outcome = 'Hang'
    except Exception as e:
        outcome = type(e).__name__
    d = dict(doc)
    d['nodes'] = [dict(n, trans=n['trans'] if isinstance(n['trans'], list) else []) for n in
                  (doc['nodes'] if isinstance(doc['nodes'], list) else [])]
    return {'id': ident, 'kind': 'import', 'doc': d, 'outcome': outcome, 'struct': struct, 'prios': prios,
            'orig': 0, 'back': 0, 'eqs': [], 'canary': canary_ok()}, text


# ------------------------------------------------------------------ C11: rich projections

def rich(sc, intern):
    def I(s):
        if s is None:
            return 0
        s = s.strip()
        return intern.setdefault(s, len(intern) + 1)
    meta = [I(sc.name), I(sc.description), I(sc.preamble)]
    states = []
    for name in sc.states:
        st = sc.state_for(name)
        states.append({'name': I(name), 'kind': model_edit.KIND[type(st)], 'parent': I(sc.parent_for(name)),
                       'initial': I(getattr(st, 'initial', None)), 'memory': I(getattr(st, 'memory', None)),
                       'entry': I(getattr(st, 'on_entry', None)), 'exit': I(getattr(st, 'on_exit', None)),
                       'pre': [I(x) for x in st.preconditions], 'post': [I(x) for x in st.postconditions],
                       'inv': [I(x) for x in st.invariants]})
    trans = []
    for t in sc.transitions:
        trans.append({'src': I(t.source), 'tgt': I(t.target), 'ev': I(t.event), 'guard': I(t.guard),
                      'action': I(t.action), 'prio': t.priority if isinstance(t.priority, int) else -99999,
                      'pre': [I(x) for x in t.preconditions], 'post': [I(x) for x in t.postconditions],
                      'inv': [I(x) for x in t.invariants]})
    return {'meta': meta, 'states': states, 'trans': trans}


def roundtrip_line(sc, ident):
    intern = {}
    orig = rich(sc, intern)
    outcome, back, eqs = 'ok', {'meta': [0, 0, 0], 'states': [], 'trans': []}, []
    text = ''
    try:
        text = export_to_yaml(sc)
        sc2 = import_from_yaml(text)
        back = rich(sc2, intern)
        for name in sc.states:
            eqs.append(bool(sc.state_for(name) == sc2.state_for(name)))
        t2 = list(sc2.transitions)
        for t in sc.transitions:
            m = [u for u in t2 if realize.tid_of(u) == realize.tid_of(t) and realize.tid_of(t)]
            eqs.append(bool(m and t == m[0]) if realize.tid_of(t) else any(t == u for u in t2))
    except Exception as e:
        outcome = type(e).__name__
    return {'id': ident, 'kind': 'roundtrip', 'doc': 0, 'outcome': outcome, 'struct': 0, 'prios': [],
            'orig': orig, 'back': back, 'eqs': eqs, 'canary': canary_ok()}, text


def special_charts(rng, count):
    """Charts with rich fields: contracts, sends, priorities (non-default ints), time guards."""
    cs = gc.family_f3(rng, count, nmin=3, nmax=8, contracts=True, time_guards=True)
    for c in cs:
        for t in c['trans']:
            if rng.random() < 0.3:
                t['prio'] = rng.choice([-3, 7, 2, -1, 1])
    return cs


def trace_tlc(name, lines):
    d = tlc.workdir(name)
    path = os.path.join(d, 'traces.json')
    json.dump(lines, open(path, 'w'))
    tlc.write_mc(d, 'YamlTrace', {'M': M}, spec='TSpec', invariants=['Report'])
    tr = tlc.run(d, env={'TRACE_FILE': path}, timeout=3000)
    reports = {j['id']: j for j in tr['json'] if isinstance(j, dict) and 'id' in j}
    return tr, reports


def main(prop, tier, seed, replay_path=None):
    t0 = time.time()
    quick = tier == 'quick'
    rng = random.Random(seed * 977 + int(prop[1:]))
    if prop == 'C12':
        return main_c12(tier, seed, rng, quick, t0, replay_path)
    return main_c11(tier, seed, rng, quick, t0, replay_path)


def yaml_charts(rng, n, count):
    pool = gc.family_f1(n)
    rng.shuffle(pool)
    out = []
    for c in pool[:count]:
        c = json.loads(json.dumps(c))
        c['trans'] = rng.sample(c['trans'], min(rng.randint(0, 3), len(c['trans'])))
        for i, t in enumerate(c['trans']):
            t['ev'] = i % 2
            t['prio'] = rng.choice([0, 0, 1, -1, 7, -3])
        out.append(c)
    return out


def main_c12(tier, seed, rng, quick, t0, replay_path):
    if replay_path:
        doc = json.load(open(replay_path if os.path.isabs(replay_path) else os.path.join(tlc.VERIF, replay_path)))
        docs = [doc['doc']]
        mc = dict(distinct=1, generated=1, completed=True, cmd='')
        faults = [[]]
    else:
        charts = yaml_charts(rng, 4, 9 if quick else (8 if os.environ.get('C12_FAULTS') == '3' else 32))
        big5 = [c for c in gc.family_f1(5) if c['n'] == 5 and any(
            c['parent'][a - 1] != 0 and len(gc.children(c, a)) >= 2 and min(gc.children(c, c['parent'][a - 1])) < a
            for a in range(2, 6))]     # a nested state with two children that is declared after a sibling
        rng.shuffle(big5)
        for c in big5[:3 if quick else 10]:
            c = json.loads(json.dumps(c))
            c['trans'] = rng.sample(c['trans'], min(2, len(c['trans'])))
            for i, t in enumerate(c['trans']):
                t['ev'] = i % 2
                t['prio'] = rng.choice([0, 1, -1, 7])
            charts.append(c)
        d = tlc.workdir('C12_yaml')
        with open(os.path.join(d, 'ChartsData.tla'), 'w') as f:
            f.write(gc.tla_charts_module('ChartsData', charts))
        tlc.write_mc(d, 'YamlMC', dict(M=M, MaxFaults=2 if (quick or os.environ.get('C12_FAULTS') != '3') else 3, EmitEdges=True), view='View',
                     action_constraints=['Emit'],
                     invariants=['AcceptsIffSound', 'AcceptedIsSound', 'RoundTrips'])
        mc = tlc.run(d, timeout=3000, heap='12g')
        if mc['error'] or mc['violated']:
            print('MACHINERY-FAILURE property=C12: design check of Yaml.tla failed (the model importer and the '
                  'declarative rules disagree)\n' + (mc['error'] or mc['out'][-2500:]))
            return 2
        seen, docs, faults = set(), [], []
        for j in mc['json']:
            if 'doc' in j:
                k = json.dumps(j['doc'], sort_keys=True)
                if k not in seen:
                    seen.add(k)
                    docs.append(j['doc'])
                    faults.append(j['faults'] if isinstance(j['faults'], list) else [])
    import multiprocessing
    t1 = time.time()
    with multiprocessing.Pool(16) as pool:
        res = pool.starmap(import_line, [(dd, i + 1) for i, dd in enumerate(docs)], chunksize=200)
    lines = [r[0] for r in res]
    texts = [r[1] for r in res]
    t2 = time.time()
    tr, reports = trace_tlc('C12_yaml_tr', lines)
    print('  (design %.0fs, import %.0fs, trace check %.0fs)' % (mc.get('wall_s', 0), t2 - t1, time.time() - t2))
    if tr['error'] or any(l['id'] not in reports for l in lines):
        print('MACHINERY-FAILURE property=C12: trace check failed or incomplete\n' + str(tr['error']))
        return 2
    nviol, out, divs = 0, [], 0
    for ln, text, fl in zip(lines, texts, faults):
        r = reports[ln['id']]
        bad = [] if isinstance(r['bad'], dict) else r['bad']
        divs += r['div']
        if bad:
            nviol += 1
            if nviol <= 5:
                pth = evd.write_replay('C12', nviol, {'property': 'C12', 'doc': ln['doc'], 'yaml': text, 'faults': fl,
                                                      'outcome': ln['outcome'], 'failing': bad})
                out.append('VIOLATION property=C12 replay=%s' % pth)
                out.append('  clauses=%s faults=%s outcome=%s' % (bad, fl, ln['outcome']))
    for ln in out:
        print(ln)
    if replay_path:
        return 1 if nviol else 0
    acc = sum(1 for l in lines if l['outcome'] == 'ok')
    cov = dict(states=mc['distinct'], transitions=mc['generated'], traces_validated_against_impl=len(lines),
               samples=[{'faults': faults[i], 'yaml': texts[i], 'outcome': lines[i]['outcome']} for i in (0, len(lines) // 2, len(lines) - 1)],
               exhaustive=bool(mc['completed']), documents=len(lines), accepted=acc, rejected=len(lines) - acc,
               divergences=divs, start_charts=len(charts), max_faults=2 if quick else 3, mc_cmd=mc['cmd'], trace_cmd=tr['cmd'],
               rule='YamlMC.tla: every combination of up to max_faults faults of 21 kinds at every position of the export '
                    'of each valid start chart; TLC checks Accepts <=> DocSound in the model; every distinct document is '
                    'rendered to YAML, imported by the real import_from_yaml, and TLC (YamlTrace.tla) decides the outcome')
    evd.write_evidence('C12', tier, seed, cov, time.time() - t0, nviol, level='model_checking',
                       assumptions=['silently ignored keys (children of final/history states, initial on a childless state) are not injected'])
    print('C12 %s: %d model states, %d distinct documents imported (%d accepted), %d violations, %.1fs' % (
        tier, mc['distinct'], len(lines), acc, nviol, time.time() - t0))
    return 1 if nviol else 0


def main_c11(tier, seed, rng, quick, t0, replay_path):
    import interp_check
    # (a) design: structural round trip in the model
    charts = yaml_charts(rng, 4, 120 if quick else 419)
    d = tlc.workdir('C11_yaml')
    with open(os.path.join(d, 'ChartsData.tla'), 'w') as f:
        f.write(gc.tla_charts_module('ChartsData', charts))
    tlc.write_mc(d, 'YamlMC', dict(M=M, MaxFaults=0, EmitEdges=False), view='View', action_constraints=['Emit'],
                 invariants=['RoundTrips', 'AcceptsIffSound'])
    mc = tlc.run(d, timeout=3000)
    if mc['error'] or mc['violated']:
        print('MACHINERY-FAILURE property=C11: design check (RoundTrip in Yaml.tla) failed\n' + (mc['error'] or mc['out'][-2500:]))
        return 2
    # (b) structure on the real code
    fam = charts + special_charts(rng, 60 if quick else 600) + gc.family_hist(rng, 20 if quick else 200)
    lines, info = [], []
    # an earlier import in the same process of a document with a %YAML directive must not change later ones
    try:
        import_from_yaml('%YAML 1.1\n---\n' + CANARY)
    except Exception:
        pass
    pools = sorted(realize.POOLS)
    variants = ['api', 'api_edit', 'yaml', 'ryaml']
    for i, c in enumerate(fam):
        pool = pools[i % len(pools)]
        variant = variants[(i // len(pools)) % len(variants)]
        sc, names = realize.build(c, variant, pool, seed=i)
        if i % 3 == 0:
            sc.description = 'multi\nline: "desc" # %d' % i
            sc._preamble = 'x = 0\ny = "é: [1, 2]"'
        if i % 5 == 1:      # Windows line endings / unusual separators inside multi-line strings
            sc.description = 'first\r\nsecond\u2028third\ttab'
            sc._preamble = 'x = 0\r\nbox = [[]]\r\ny = 2'
            st0 = sc.state_for(sorted(sc.states)[0])
            st0.on_exit = (st0.on_exit or 'pass') + '\r\nz = "\x1b[0m"'
        ln, text = roundtrip_line(sc, i + 1)
        lines.append(ln)
        info.append({'chart': c, 'pool': pool, 'variant': variant, 'yaml': text})
    tr, reports = trace_tlc('C11_yaml_tr', lines)
    if tr['error'] or any(l['id'] not in reports for l in lines):
        print('MACHINERY-FAILURE property=C11: trace check failed or incomplete\n' + str(tr['error']))
        return 2
    nviol, out = 0, []
    for ln, inf in zip(lines, info):
        bad = reports[ln['id']]['bad']
        bad = [] if isinstance(bad, dict) else bad
        if bad:
            nviol += 1
            if nviol <= 5:
                pth = evd.write_replay('C11', nviol, dict(inf, property='C11', failing=bad, outcome=ln['outcome'],
                                                          eqs=ln['eqs']))
                out.append('VIOLATION property=C11 replay=%s' % pth)
                out.append('  clauses=%s pool=%s variant=%s' % (bad, inf['pool'], inf['variant']))
    # (c) behaviour: re-imported twin through the interpreter engine
    stage = interp_check.cfg_C11b(tier, rng)
    try:
        sout, viol, allcharts, samples, mc2 = interp_check.run_stage('C11', tier, seed, stage, rng)
    except interp_check.Machinery as e:
        print('MACHINERY-FAILURE property=C11: %s' % e)
        return 2
    for (t, mine, r) in viol:
        nviol += 1
        if nviol <= 8:
            pth = evd.write_replay('C11', 100 + nviol, {'property': 'C11', 'chart': allcharts[t['ci'] - 1], 'hist': t['hist'],
                                                        'kw': t['kw'], 'failing': mine, 'lines': t['lines']})
            out.append('VIOLATION property=C11 replay=%s' % pth)
            out.append('  clauses=%s (behaviour of the re-imported statechart)' % sorted({b[2] for b in mine}))
    for ln in out:
        print(ln)
    cov = dict(states=mc['distinct'] + sout['mc_states'], transitions=mc['generated'] + sout['mc_transitions'],
               traces_validated_against_impl=len(lines) + sout['traces'],
               samples=[{'pool': info[0]['pool'], 'variant': info[0]['variant'], 'yaml': info[0]['yaml'][:1500]},
                        {'pool': info[-1]['pool'], 'variant': info[-1]['variant'], 'yaml': info[-1]['yaml'][:1500]}],
               exhaustive=False, roundtrips=len(lines), name_pools=pools, build_variants=variants,
               behaviour_stage=sout, mc_cmd=mc['cmd'], trace_cmd=tr['cmd'],
               rule='Yaml.tla RoundTrip on every start chart (model); real export_to_yaml -> import_from_yaml on charts '
                    'with plain/unicode/YAML-significant names and multi-line code, rich projections compared by TLC '
                    '(YamlTrace.tla) incl. == of every state and transition; behaviour of the re-import as a twin run '
                    '(Props!RefEq, rel "reimport")')
    evd.write_evidence('C11', tier, seed, cov, time.time() - t0, nviol,
                       assumptions=['string-level YAML fidelity is exercised through name/code pools, not modelled in TLA+'])
    print('C11 %s: %d round trips + %d behaviour traces, %d violations, %.1fs' % (
        tier, len(lines), sout['traces'], nviol, time.time() - t0))
    return 1 if nviol else 0
