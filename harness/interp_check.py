"""Checks decided with Sismic.tla / SismicTrace.tla (the interpreter engine)."""
import json
import os
import random
import sys
import time
from collections import Counter

import gen_charts as gc
import engine
import evidence as evd
import tlc

QUICK, THOROUGH = 'quick', 'thorough'


def _sub(lst, k, rng):
    lst = list(lst)
    if len(lst) <= k:
        return lst
    return rng.sample(lst, k)


# ------------------------------------------------------------------ per-property configurations
# Each returns a list of "stages"; a stage = dict(name, charts, consts, variants, random, mc_timeout,
# simulate).  Every stage runs the full pipeline (design check -> replay -> trace check).

def f1(tier, rng, need=None, nq=4, nt=5, sample_t=None):
    n = nq if tier == QUICK else nt
    charts = gc.family_f1(n)
    if need is not None:
        charts = [c for c in charts if need(c)]
    if tier == THOROUGH and sample_t and len(charts) > sample_t:
        small = [c for c in charts if c['n'] <= nq]
        big = [c for c in charts if c['n'] > nq]
        charts = small + rng.sample(big, sample_t - len(small))
    return charts


_SHIPPED = []


def shipped(need=None, max_oracle=7):
    """F4: abstractions of the statecharts shipped with sismic (tests/yaml, docs/examples)."""
    if not _SHIPPED:
        _SHIPPED.extend(gc.family_shipped())
    return [json.loads(json.dumps(c)) for c in _SHIPPED
            if (need is None or need(c)) and sum(t['gk'] == 'oracle' for t in c['trans']) <= max_oracle]


def has_history(c):
    return any(k in ('shallow', 'deep') for k in c['kind'])


def has_orthogonal(c):
    return 'orthogonal' in c['kind']


EPOCH = 1600000000      # runs that start at a large absolute time (a clock set to a timestamp)


def cfg_C02(tier, rng):
    return [dict(name='skeleton', charts=f1(tier, rng, sample_t=2500) + shipped(max_oracle=4)
                 + gc.family_hist(rng, 25 if tier == QUICK else 250) + gc.family_hist_orth(rng, 10 if tier == QUICK else 60)
                 + gc.family_fanout(rng, 14 if tier == QUICK else 60) + gc.family_nested(rng, 16 if tier == QUICK else 80),
                 consts=dict(MaxQ=1, MaxLevel=8 if tier == QUICK else 10),
                 variants=[dict(variant='api'), dict(variant='api_edit')],
                 jobs_for=(lambda ci, h, r: [dict(variant=('api', 'api_edit')[(ci + len(h)) % 2])]) if tier == QUICK else None,
                 random=dict(count=150 if tier == QUICK else 1500, length=12,
                             family=lambda r, k: gc.family_f3(r, k, nmin=5, nmax=9, contracts=False)))]


def cfg_C03(tier, rng):
    return [dict(name='skeleton', charts=f1(tier, rng, sample_t=2000) + shipped(max_oracle=4)
                 + gc.family_hist(rng, 20 if tier == QUICK else 200) + gc.family_fanout(rng, 12 if tier == QUICK else 60),
                 consts=dict(MaxQ=1, MaxLevel=8 if tier == QUICK else 10),
                 variants=[dict(variant='api_edit'), dict(variant='ryaml')],
                 jobs_for=(lambda ci, h, r: [dict(variant=('api_edit', 'ryaml')[(ci + len(h)) % 2])]) if tier == QUICK else None,
                 random=dict(count=150 if tier == QUICK else 1500, length=12,
                             family=lambda r, k: gc.family_f3(r, k, nmin=5, nmax=9)))]


def cfg_C06(tier, rng):
    big = gc.family_hist(rng, 40 if tier == QUICK else 500) + gc.family_hist_orth(rng, 8 if tier == QUICK else 60)
    # (own generator: the charts above stay what they were)
    inside = gc.family_hist_inside(random.Random(606), 12 if tier == QUICK else 120)
    return [dict(name='history', charts=f1(tier, rng, need=has_history, sample_t=2500) + big + shipped(need=has_history) + inside,
                 consts=dict(MaxQ=1, MaxLevel=9 if tier == QUICK else 11),
                 variants=[dict(variant='api', shadow=True)],
                 random=dict(count=150 if tier == QUICK else 1500, length=16,
                             family=lambda r, k: [c for c in gc.family_f3(r, 4 * k, nmin=5, nmax=9)
                                                  if has_history(c)][:k]))]


def cfg_C01(tier, rng):
    k = 90 if tier == QUICK else 1200
    return [dict(name='bundles', charts=gc.family_f2(rng, k) + gc.family_nested(rng, 40 if tier == QUICK else 500)
                 + shipped(need=lambda c: any(t['gk'] == 'oracle' for t in c['trans']), max_oracle=6),
                 consts=dict(MaxQ=1, MaxLevel=6 if tier == QUICK else 8),
                 variants=[dict(variant='api', pool='chars'), dict(variant='api_edit', pool='chars')],
                 # (the nested bundles, charts k+1 .., are always replayed on the statechart built through the editing API too)
                 jobs_for=(lambda ci, h, r: [dict(variant='api', pool='chars'), dict(variant='api_edit', pool='chars')] if ci > k
                           else [dict(variant=('api', 'api_edit')[(ci + len(h)) % 2], pool='chars')]) if tier == QUICK else None,
                 random=dict(count=150 if tier == QUICK else 1500, length=12,
                             family=lambda r, kk: gc.family_f3(r, kk, nmin=5, nmax=9))),
            # the same guard text on several transitions whose values differ (time predicates relative to the source)
            dict(name='sametext', charts=gc.family_sametext(rng, 10 if tier == QUICK else 40),
                 consts=dict(MaxQ=1, MaxClk=3 if tier == QUICK else 4, Advances={1, 2}, MaxLevel=6 if tier == QUICK else 7),
                 variants=[dict(variant='api'), dict(variant='api', moving=True)],
                 random=dict(count=60 if tier == QUICK else 600, length=16, advances=(1, 2),
                             family=lambda r, kk: gc.family_sametext(r, kk)))]


def cfg_C04(tier, rng):
    k = 100 if tier == QUICK else 1200
    charts = [c for c in gc.family_f2(rng, 3 * k, max_shared=3, max_eventless=1)
              if has_orthogonal(c) or rng.random() < 0.3][:k]
    charts += gc.family_nested(rng, 120 if tier == QUICK else 1500)
    charts += gc.family_fanout(rng, 16 if tier == QUICK else 120)
    charts += gc.family_twostep(rng, 10 if tier == QUICK else 80)
    return [dict(name='bundles', charts=charts,
                 consts=dict(MaxQ=1, MaxLevel=6 if tier == QUICK else 8),
                 variants=[dict(variant='api')],
                 random=dict(count=100 if tier == QUICK else 1000, length=10,
                             family=lambda r, kk: [c for c in gc.family_f3(r, 3 * kk, nmin=5, nmax=9, tmin=8, tmax=14)
                                                   if has_orthogonal(c)][:kk]))]


def cfg_C05(tier, rng):
    k = 4 if tier == QUICK else 12
    charts = gc.family_f3(rng, k, nmin=3, nmax=5, tmin=3, tmax=6, nev=2, max_oracle=2)
    # several regions react to one event (several event-triggered micro steps in a macro step)
    charts += [c for c in gc.family_fanout(rng, 12) if c['n'] <= 10][:2 if tier == QUICK else 4]
    return [dict(name='queues', charts=charts,
                 consts=dict(MaxQ=2, MaxClk=2 if tier == QUICK else 3,
                             Delays={0, 1, 2}, Advances={1, 2}, Params={0},
                             MaxLevel=6),
                 variants=[dict(variant='api', shadow=True), dict(variant='api', epoch=EPOCH)],
                 jobs_for=(lambda ci, h, r: [[dict(variant='api', shadow=True), dict(variant='api', epoch=EPOCH)][(ci + len(h)) % 2]])
                 if tier == QUICK else None,
                 random=dict(count=300 if tier == QUICK else 3000, length=30, delays=(0, 0, 1, 2, 3),
                             advances=(1, 2), params=(0, 7), maxq=5,
                             family=lambda r, kk: gc.family_f3(r, kk, nmin=4, nmax=8)))]


def cfg_C13(tier, rng):
    k = 12 if tier == QUICK else 40
    charts = gc.family_f3(rng, k, nmin=3, nmax=5, tmin=3, tmax=6, nev=2, max_oracle=1, time_guards=True)
    charts += gc.family_f3(rng, max(4, k // 3), nmin=3, nmax=5, tmin=3, tmax=5, nev=2, max_oracle=1, time_guards=True,
                           contracts=True)      # after() / idle() inside post-conditions and invariants
    for c in charts:   # clock ticks during the step
        for t in c['trans']:
            if rng.random() < 0.3:
                t['act'] = dict(t['act'], tick=rng.choice([1, 2]))
    charts += gc.family_idle(rng, 6 if tier == QUICK else 50)
    return [dict(name='time', charts=charts,
                 consts=dict(MaxQ=1, MaxClk=4 if tier == QUICK else 5, Delays={0, 1}, Advances={1, 2},
                             MaxLevel=8 if tier == QUICK else 9),
                 variants=[dict(variant='api', shadow=True), dict(variant='api', epoch=EPOCH), dict(variant='api', moving=True)],
                 jobs_for=(lambda ci, h, r: [[dict(variant='api', shadow=True), dict(variant='api', epoch=EPOCH),
                                              dict(variant='api', moving=True)][(ci + len(h)) % 3]])
                 if tier == QUICK else None,
                 random=dict(count=200 if tier == QUICK else 2000, length=25, delays=(0, 1, 2),
                             advances=(1, 2, 3), maxq=3,
                             family=lambda r, kk: gc.family_f3(r, kk, nmin=4, nmax=8, time_guards=True)))]


def with_contracts(charts, rng, dens=0.6):
    """Put contract conditions on states and transitions of skeleton charts."""
    out = []
    for c in charts:
        c = json.loads(json.dumps(c))
        for s_ in range(c['n']):
            if rng.random() < dens:
                c['spre'][s_] = rng.choice([0, 1, 2])
                c['spost'][s_] = rng.choice([0, 1, 2])
                c['sinv'][s_] = rng.choice([0, 1, 1, 2])
            if rng.random() < 0.4:
                c['entry'][s_] = dict(c['entry'][s_], incx=1)
        for t in c['trans']:
            if rng.random() < dens / 2:
                t['pre'], t['post'], t['inv'] = rng.choice([0, 1, 2]), rng.choice([0, 1, 2]), rng.choice([0, 1])
            if rng.random() < 0.3:
                t['act'] = dict(t['act'], incx=1)
        out.append(c)
    return out


def thin(charts, rng, keep_trans=5):
    """Keep only a few transitions per chart (smaller alphabets, same structures)."""
    out = []
    for c in charts:
        c = json.loads(json.dumps(c))
        if len(c['trans']) > keep_trans:
            idx = sorted(rng.sample(range(len(c['trans'])), keep_trans))
            c['trans'] = [c['trans'][i] for i in idx]
        evs = sorted({t['ev'] for t in c['trans'] if t['ev']})
        remap = {e: i + 1 for i, e in enumerate(evs)}
        for t in c['trans']:
            if t['ev']:
                t['ev'] = remap[t['ev']]
        c['events'] = list(range(1, len(evs) + 2))
        out.append(c)
    return out


def cfg_C08(tier, rng):
    k = 90 if tier == QUICK else 250
    base = thin(_sub(gc.family_f1(4 if tier == QUICK else 5), k, rng), rng, 5)
    charts = with_contracts(base, rng)
    rich = gc.family_f3(rng, 10 if tier == QUICK else 80, nmin=3, nmax=5, tmin=3, tmax=5, nev=2,
                        max_oracle=1, contracts=True)
    ship = shipped(need=lambda c: sum(c['spre']) + sum(c['spost']) + sum(c['sinv']) > 0, max_oracle=3)
    return [dict(name='contracts', charts=charts + rich + ship,
                 consts=dict(MaxQ=1, MaxCFail=12 if tier == QUICK else 14, MaxLevel=5 if tier == QUICK else 6),
                 variants=[dict(variant='api', shadow=True, device=True)],
                 random=dict(count=150 if tier == QUICK else 1500, length=14, pfail=0.3,
                             family=lambda r, kk: gc.family_f3(r, kk, nmin=5, nmax=8, contracts=True)))]


def cfg_C09(tier, rng):
    k = 60 if tier == QUICK else 500
    base = thin(_sub(gc.family_f1(4 if tier == QUICK else 5), k, rng), rng, 5)
    charts = with_contracts(base, rng)
    rich = gc.family_f3(rng, 10 if tier == QUICK else 80, nmin=3, nmax=5, tmin=3, tmax=5, nev=2,
                        max_oracle=1, contracts=True)
    tw = dict(rel='ignore', kw=dict(ignore_contract=True, device=True))
    timed = gc.family_f3(rng, 10 if tier == QUICK else 80, nmin=3, nmax=5, tmin=4, tmax=6, nev=2,
                         max_oracle=1, contracts=True, time_guards=True)
    timed += gc.family_idle(rng, 12 if tier == QUICK else 60, contracts=True)
    return [dict(name='transparent', charts=charts + rich,
                 consts=dict(MaxQ=1, MaxLevel=6 if tier == QUICK else 7, Twin='ignore'),
                 variants=[dict(variant='api', device=True, twin=tw)],
                 random=dict(count=150 if tier == QUICK else 1500, length=14,
                             family=lambda r, kk: gc.family_f3(r, kk, nmin=5, nmax=8, contracts=True))),
            dict(name='transparent_timed', charts=timed,
                 consts=dict(MaxQ=1, MaxClk=3 if tier == QUICK else 4, Advances={1, 2}, MaxLevel=6 if tier == QUICK else 7,
                             Twin='ignore'),
                 variants=[dict(variant='api', twin=tw)],
                 random=dict(count=150 if tier == QUICK else 1500, length=20, advances=(1, 2, 3),
                             family=lambda r, kk: gc.family_f3(r, kk, nmin=5, nmax=8, contracts=True, time_guards=True))),
            dict(name='ignored', charts=charts[:len(charts) // 2] + rich,
                 consts=dict(MaxQ=1, MaxLevel=5, MaxCFail=3, Opt={'ignore': True, 'metas': True}),
                 variants=[dict(variant='api', ignore_contract=True)],
                 # ... and a pickled / deep-copied interpreter that ignores its contracts still ignores them
                 jobs_for=lambda ci, h, r: [dict(variant='api', ignore_contract=True)] + (
                     [dict(variant='api', ignore_contract=True, fork=dict(at=len(h) - 1, mode=('pickle', 'deepcopy')[ci % 2]))]
                     if len(h) >= 2 and (ci + len(h)) % 3 == 0 else []),
                 random=dict(count=100 if tier == QUICK else 1000, length=14, pfail=0.5,
                             family=lambda r, kk: gc.family_f3(r, kk, nmin=5, nmax=8, contracts=True)))]


def driver_watchdog(rng, c, length):
    import driver
    return driver.watchdog_history(rng, c, length)


def cfg_C10(tier, rng):
    k = 40 if tier == QUICK else 400
    base = thin(_sub(gc.family_f1(4 if tier == QUICK else 5), k, rng), rng, 4)
    rich = gc.family_f3(rng, 8 if tier == QUICK else 60, nmin=3, nmax=5, tmin=3, tmax=5, nev=2, max_oracle=1)
    for c in base + rich:   # the clock also moves while a step is being processed
        for t in c['trans']:
            if rng.random() < 0.4:
                t['act'] = dict(t['act'], tick=rng.choice([1, 2]))
        for s_ in range(c['n']):
            if rng.random() < 0.2:
                c['entry'][s_] = dict(c['entry'][s_], tick=1)
    return [dict(name='monitor', charts=base + rich,
                 consts=dict(MaxQ=1, MaxClk=6, MaxMFail=14 if tier == QUICK else 20, MaxLevel=4 if tier == QUICK else 5),
                 variants=[dict(variant='api', monitor=True), dict(variant='api', monitor=True, moving=True)],
                 jobs_for=(lambda ci, h, r: [dict(variant='api', monitor=True, **({'moving': True} if (ci + len(h)) % 2 else {}))])
                 if tier == QUICK else None,
                 random=dict(count=100 if tier == QUICK else 1000, length=12, pmfail=0.3,
                             family=lambda r, kk: gc.family_f3(r, kk, nmin=5, nmax=8))),
            dict(name='watchdog', charts=rich[:3],
                 consts=dict(MaxQ=1, MaxLevel=2),
                 variants=[dict(variant='api', monitor='watchdog')],
                 random=dict(count=150 if tier == QUICK else 1500, length=14, hist=driver_watchdog,
                             family=lambda r, kk: gc.family_f3(r, kk, nmin=3, nmax=6, tmin=3, tmax=6, nev=2, max_oracle=2))),
            dict(name='nonintrusive', charts=base[:len(base) // 2] + rich,
                 consts=dict(MaxQ=1, MaxClk=6, MaxLevel=5 if tier == QUICK else 6),
                 variants=[dict(variant='api', monitor=True, twin=dict(rel='nomon', kw=dict(monitor=False)))],
                 random=dict(count=100 if tier == QUICK else 1000, length=14,
                             family=lambda r, kk: gc.family_f3(r, kk, nmin=5, nmax=8)))]


def mixed_family(tier, rng, small=40, big=20):
    f = _sub(gc.family_f1(4), small if tier == QUICK else small * 8, rng)
    f += gc.family_f2(rng, big if tier == QUICK else big * 8)
    f += gc.family_nested(rng, big // 2 if tier == QUICK else big * 4)
    f += gc.family_hist(rng, big // 2 if tier == QUICK else big * 4)
    return f


def cfg_C07(tier, rng):
    charts = thin(mixed_family(tier, rng), rng, 8) + gc.family_nested(rng, 24 if tier == QUICK else 400)
    charts += gc.family_fanout(rng, 6 if tier == QUICK else 40)
    rd = dict(count=100 if tier == QUICK else 1000, length=14,
              family=lambda r, kk: gc.family_f3(r, kk, nmin=5, nmax=9))
    return [dict(name='declaration', charts=charts,
                 consts=dict(MaxQ=1, MaxLevel=5 if tier == QUICK else 7),
                 variants=[dict(variant='api', seed=1, twin=dict(rel='variant', kw=dict(variant='ryaml'))),
                           dict(variant='api_edit', seed=2, twin=dict(rel='variant', kw=dict(variant='yaml'))),
                           dict(variant='api_reversed', twin=dict(rel='variant', kw=dict(variant='api', seed=3)))],
                 random=rd),
            dict(name='hashseed', charts=charts[:len(charts) // 3] + thin(gc.family_hist(rng, 24 if tier == QUICK else 300), rng, 9)
                 + gc.family_nested(rng, 8 if tier == QUICK else 200) + gc.family_deep_orth(rng, 12 if tier == QUICK else 50)
                 # transitions from outside into deeply nested regions: several orthogonal states incomplete at once
                 + [c for c in gc.family_nested(rng, 120 if tier == QUICK else 600) if any(t['ev'] == 2 for t in c['trans'])][:12 if tier == QUICK else 80]
                 + [c for c in gc.family_f1(4) if 'deep' in c['kind']][:20],
                 consts=dict(MaxQ=1, MaxLevel=6 if tier == QUICK else 7),
                 variants=[dict(variant='api', pool='unicode')],
                 other_process=[1, 2] if tier == QUICK else [1, 2, 3, 12345, 99],
                 random=rd)]


def cfg_C11b(tier, rng):
    charts = thin(mixed_family(tier, rng), rng, 8)
    return dict(name='reimport', charts=charts,
                consts=dict(MaxQ=1, MaxLevel=5 if tier == QUICK else 7),
                variants=[dict(variant='api', seed=4, twin=dict(rel='reimport', kw=dict(reimport=True))),
                          dict(variant='api_edit', pool='quote', twin=dict(rel='reimport', kw=dict(reimport=True)))],
                random=dict(count=100 if tier == QUICK else 1000, length=14,
                            family=lambda r, kk: gc.family_f3(r, kk, nmin=5, nmax=9, contracts=True)))


def cfg_C17r(tier, rng):
    charts = thin(mixed_family(tier, rng), rng, 8)
    for c in charts:          # internal transitions matter (D7)
        srcs = [s for s in range(1, c['n'] + 1) if c['kind'][s - 1] in gc.TRANS_KINDS]
        ev = max(c['events'])
        c['trans'].append(gc.mk_trans(rng.choice(srcs), 0, ev))
        c['events'].append(ev + 1)
    charts = [with_contracts([c], rng)[0] if i % 3 == 0 else c for i, c in enumerate(charts)]     # contracts follow too
    return dict(name='rename', charts=charts,
                consts=dict(MaxQ=1, MaxLevel=5 if tier == QUICK else 7),
                variants=[dict(variant='api', seed=6, twin=dict(rel='rename', kw=dict(rename=11))),
                          dict(variant='yaml', twin=dict(rel='rename', kw=dict(rename=12)))],
                random=dict(count=100 if tier == QUICK else 1000, length=14, pfail=0.15,
                            family=lambda r, kk: no_active(gc.family_f3(r, kk, nmin=5, nmax=9, contracts=True))))


def no_active(charts):
    """active('name') guards embed a state name in a code string, which rename_state cannot follow."""
    for c in charts:
        for t in c['trans']:
            if t['gk'] == 'active':
                t['gk'], t['ga'] = ('oracle', 0)
    return charts


def cfg_C18(tier, rng):
    k = 14 if tier == QUICK else 100
    charts = gc.family_f3(rng, k, nmin=3, nmax=6, tmin=3, tmax=6, nev=2, max_oracle=1, contracts=True)
    charts += with_contracts(thin(gc.family_hist(rng, k // 2, nmin=5, nmax=7), rng, 6), rng)

    def jobs_for(ci, h, r):
        n = len(h)
        if n < 2:
            return []
        ats = {n - 1}
        if n > 2:
            ats.add(r.randint(1, n - 2))
        # (some snapshots are taken of interpreters that ignore their contracts: the copy must ignore them too)
        # ... and a third of them of interpreters whose SimulatedClock is running in real-time mode (start()ed)
        return [dict(variant='api', fork=dict(at=a, mode=('pickle', 'deepcopy')[(a + n + i) % 2]),
                     **({'ignore_contract': True} if (ci + a) % 4 == 0 else {}),
                     **({'running': True} if (ci + a + n) % 3 == 0 else {}))
                for i, a in enumerate(sorted(ats))]
    return [dict(name='fork', charts=charts,
                 consts=dict(MaxQ=1, MaxClk=2, Delays={0, 1}, Advances={1}, MaxLevel=5 if tier == QUICK else 6),
                 jobs_for=jobs_for, variants=[dict(variant='api')],
                 random=dict(count=200 if tier == QUICK else 2000, length=16, delays=(0, 1, 2), advances=(1, 2),
                             family=lambda r, kk: gc.family_f3(r, kk, nmin=5, nmax=8, contracts=True)))]


def cfg_C17c(tier, rng):
    charts = [c for c in thin(mixed_family(tier, rng, small=40, big=20), rng, 8)
              if not any(c['kind'][s - 1] == 'final' and c['parent'][s - 1] == gc.root(c) for s in range(1, c['n'] + 1))]
    # guests with transitions that differ only in guard / action / priority (same source, target, event)
    for c in charts[::3]:
        if c['trans']:
            t = dict(rng.choice(c['trans']))
            t['gk'], t['prio'] = 'oracle', t['prio'] + 1
            c['trans'].append(t)
    charts = [with_contracts([c], rng)[0] if i % 3 == 1 else c for i, c in enumerate(charts)]
    return dict(name='copy', charts=no_active(charts),
                consts=dict(MaxQ=1, MaxLevel=5 if tier == QUICK else 6),
                variants=[dict(variant='api', seed=8, twin=dict(rel='copy', kw=dict(copy_into=True)))],
                random=dict(count=100 if tier == QUICK else 1000, length=14,
                            family=lambda r, kk: [c for c in no_active(gc.family_f3(r, 2 * kk, nmin=5, nmax=9))
                                                  if not any(c['kind'][s - 1] == 'final' and c['parent'][s - 1] == gc.root(c)
                                                             for s in range(1, c['n'] + 1))][:kk]))


def cfg_C17(tier, rng):
    return [cfg_C17r(tier, rng), cfg_C17c(tier, rng)]


CONFIGS = {'C17': cfg_C17, 'C07': cfg_C07, 'C18': cfg_C18, 'C08': cfg_C08, 'C09': cfg_C09, 'C10': cfg_C10, 'C01': cfg_C01, 'C02': cfg_C02, 'C03': cfg_C03, 'C04': cfg_C04, 'C05': cfg_C05,
           'C06': cfg_C06, 'C13': cfg_C13}


# ------------------------------------------------------------------ the pipeline

class Machinery(Exception):
    pass


SUITE_STAGE = {'C01', 'C02', 'C03', 'C04', 'C05', 'C06', 'C13'}
SUITE_QUICK = {'C02', 'C03', 'C05'}


def run_queries_stage(prop, charts, rng):
    """Chart.tla's structural operators against the real Statechart queries, for every chart of the stage."""
    import realize
    t0 = time.time()
    name = '%s_queries' % prop
    d = tlc.workdir(name)
    with open(os.path.join(d, 'ChartsData.tla'), 'w') as f:
        f.write(gc.tla_charts_module('ChartsData', charts))
    lines = []
    for ci, c in enumerate(charts, 1):
        sc, names = realize.build(c, 'api', 'plain', seed=ci)
        ids = {v: k for k, v in names.items()}
        n = c['n']
        st = range(1, n + 1)
        samples = []
        for _ in range(6):
            sub = [s for s in st if rng.random() < 0.5] or [1]
            samples.append([sub, sorted(ids[x] for x in sc.leaf_for([names[s] for s in sub]))])
        lines.append({'id': ci, 'ci': ci,
                      'anc': [[ids[x] for x in sc.ancestors_for(names[s])] for s in st],
                      'desc': [sorted(ids[x] for x in sc.descendants_for(names[s])) for s in st],
                      'depth': [sc.depth_for(names[s]) for s in st],
                      'kids': [sorted(ids[x] for x in sc.children_for(names[s])) for s in st],
                      'lca': [[ids.get(sc.least_common_ancestor(names[a], names[b]), 0) for b in st] for a in st],
                      'leaves': samples,
                      'events': sorted(int(e[1:]) for e in sc.events_for()),
                      'root': ids[sc.root]})
    path = os.path.join(d, 'traces.json')
    json.dump(lines, open(path, 'w'))
    tlc.write_mc(d, 'ChartQueries', {}, spec='TSpec', invariants=['Report'])
    tr = tlc.run(d, env={'TRACE_FILE': path}, timeout=1800)
    reports = {j['id']: j for j in tr['json'] if isinstance(j, dict) and 'id' in j}
    if tr['error'] or len(reports) != len(lines):
        raise Machinery('ChartQueries trace check failed or incomplete: %s' % tr['error'])
    viol = []
    for ln in lines:
        bad = reports[ln['id']]['bad']
        bad = [] if isinstance(bad, dict) else bad
        if bad:
            viol.append((ln, bad))
    out = dict(stage='tree-queries', charts=len(charts), mc_states=0, mc_transitions=0, traces=len(lines), edge_traces=0,
               random_traces=0, lines_evaluated=len(lines), cross_failures={}, divergences=0, model_violations=0,
               mc_completed=True, wall_s=round(time.time() - t0, 2), trace_cmd=tr['cmd'])
    return out, viol


def run_suite_stage(prop, tier):
    """The repository's own test-suite and documentation examples, run under the trace hook; every
    Interpreter they create is one recorded run evaluated by TLC (opaque mode)."""
    import repo_traces
    t0 = time.time()
    name = '%s_suite' % prop
    try:
        charts, traces, st = repo_traces.collect(name)
    except Exception as e:
        raise Machinery('recording the repository test-suite failed: %s' % e)
    if not traces:
        raise Machinery('the repository test-suite produced no usable trace')
    reports, ts = engine.trace_check(name, charts, traces)
    if ts['errors']:
        raise Machinery('TLC failed on the suite traces:\n' + str(ts['errors'][0]))
    alluids = {u for t in traces for u in t['uids']}
    if any(u not in reports for u in alluids):
        raise Machinery('suite traces: some recorded lines got no verdict')
    viol, cross, seen = [], Counter(), set()
    for t in traces:
        for ln, u in enumerate(t['uids']):
            if u in seen:
                continue
            seen.add(u)
            r = reports[u]
            mine = [[ln + 1, b[0], b[1]] for b in r['bad'] if b[0] == prop]
            for b in r['bad']:
                if b[0] != prop:
                    cross['%s.%s' % (b[0], b[1])] += 1
            if mine:
                viol.append((dict(t, hist=t['hist'][:ln + 1], lines=t['lines'][:ln + 1]), mine, r))
    out = dict(stage='repository-suite', charts=len(charts), mc_states=0, mc_transitions=0, traces=len(traces),
               edge_traces=0, random_traces=len(traces), lines_evaluated=len(alluids), cross_failures=dict(cross),
               divergences=0, model_violations=0, mc_completed=True, wall_s=round(time.time() - t0, 2),
               trace_cmd=ts['cmd'], **st)
    sample = [{'chart': charts[traces[0]['ci'] - 1], 'source': 'repository test-suite under SISMIC_VERIF_TRACE',
               'observed_last_line': traces[0]['lines'][-1]}]
    return out, viol, charts, sample


def run_shipped_twin_stage(prop, tier, seed):
    """C09 on the shipped contract charts with their real code: pairs of recorded runs (contracts on / ignored)."""
    import repo_traces
    import subprocess
    t0 = time.time()
    name = '%s_shipped' % prop
    d = tlc.workdir(name)
    path = os.path.join(d, 'twin.ndjson')
    env = dict(os.environ, SISMIC_VERIF='1', SISMIC_VERIF_TRACE=path)
    p = subprocess.run([sys.executable, os.path.join(tlc.VERIF, 'harness', 'shipped_twin.py'), str(seed),
                        '6' if tier == QUICK else '60'], env=env, stdout=subprocess.PIPE, stderr=subprocess.STDOUT, text=True)
    if p.returncode != 0 or not os.path.exists(path):
        raise Machinery('shipped_twin.py failed: ' + p.stdout[-800:])
    runs = repo_traces.load(path)
    charts, traces, seen = [], [], {}
    iids = sorted(runs)
    for k in range(0, len(iids) - 1, 2):
        ta, tb = repo_traces.to_trace(runs[iids[k]], k + 1), repo_traces.to_trace(runs[iids[k + 1]], k + 2)
        if ta is None or tb is None:
            continue
        for la, lb in zip(ta['lines'], tb['lines']):
            la['ref'] = {'rel': 'ignore', 'exc': lb['exc'], 'some': lb['some'], 'steps': lb['steps'], 'log': [],
                         'conf': lb['post']['conf'], 'final': lb['post']['final'], 'x': 0}
            lb['ign'] = True
        for t in (ta, tb):
            key = json.dumps(t['chart'], sort_keys=True)
            if key not in seen:
                charts.append(t['chart'])
                seen[key] = len(charts)
            t['ci'] = seen[key]
            del t['chart']
            t['kw'] = dict(t['kw'], source='shipped chart, real code', twin='ignore' if t is tb else 'contracts')
            traces.append(t)
    if not traces:
        raise Machinery('no shipped contract chart could be run')
    for c_ in charts:
        c_['events'] = sorted(set(c_['events']))
    reports, ts = engine.trace_check(name, charts, traces)
    if ts['errors']:
        raise Machinery('TLC failed on the shipped twin traces:\n' + str(ts['errors'][0]))
    viol, cross, seenu = [], Counter(), set()
    for t in traces:
        for ln, u in enumerate(t['uids']):
            if u in seenu:
                continue
            seenu.add(u)
            r = reports[u]
            mine = [[ln + 1, b[0], b[1]] for b in r['bad'] if b[0] == prop]
            for b in r['bad']:
                if b[0] != prop:
                    cross['%s.%s' % (b[0], b[1])] += 1
            if mine:
                viol.append((dict(t, hist=t['hist'][:ln + 1], lines=t['lines'][:ln + 1]), mine, r))
    out = dict(stage='shipped-contract-charts-real-code', charts=len(charts), mc_states=0, mc_transitions=0,
               traces=len(traces), edge_traces=0, random_traces=len(traces), lines_evaluated=len(seenu),
               cross_failures=dict(cross), divergences=0, model_violations=0, mc_completed=True,
               wall_s=round(time.time() - t0, 2), trace_cmd=ts['cmd'])
    return out, viol, charts, [{'source': 'shipped contract chart with its real code, twin ignore_contract',
                                'observed_last_line': traces[0]['lines'][-1]}]


DOCUMENTED = ('', 'NonDeterminismError', 'ConflictingTransitionsError', 'PreconditionError', 'PostconditionError',
              'InvariantError', 'PropertyStatechartError')


def crashed(exc):
    """The outcome of a call is neither a normal return nor one of the documented errors (the generated code never
    raises by itself): Hang, BuildFailed:*, KeyError, TypeError, CodeEvaluationError, ...  Outcomes of the twin
    constructions (ReimportFailed:*, SnapshotFailed:*) are judged by their own relations."""
    return exc not in DOCUMENTED and not exc.startswith(('ReimportFailed', 'SnapshotFailed'))


def run_stage(prop, tier, seed, stage, rng):
    name = '%s_%s' % (prop, stage['name'])
    charts = stage['charts']
    out = dict(stage=stage['name'], charts=len(charts))
    t0 = time.time()
    mc = engine.model_check(name, charts, prop, stage['consts'],
                            timeout=stage.get('mc_timeout', 900 if tier == QUICK else 3000))
    out.update(mc_states=mc['distinct'], mc_transitions=mc['generated'], mc_wall_s=mc['wall_s'],
               mc_cmd=mc['cmd'], mc_completed=bool(mc['completed'] and not mc['timed_out']),
               mc_timed_out=mc['timed_out'], edges=len(mc['edges']), model_violations=len(mc['viols']),
               consts={k: (sorted(v) if isinstance(v, (set, frozenset)) else v)
                       for k, v in stage['consts'].items()})
    if mc['error']:
        raise Machinery('TLC failed on the design check:\n' + mc['error'])
    if not mc['edges'] and not mc['viols']:
        raise Machinery('design check explored no edge')
    # spec -> code: every edge, on every build variant
    jobs = []
    # bound the work (and the memory) of one stage: beyond the cap, a seeded sample of the explored edges is replayed
    cap = int(os.environ.get('VERIF_EDGE_CAP', '150000'))
    out['edges_explored'] = len(mc['edges'])
    per_edge = 1 if stage.get('jobs_for') else max(1, len(stage['variants']))
    if len(mc['edges']) * per_edge > cap:
        mc['edges'] = random.Random(seed * 31 + len(mc['edges'])).sample(mc['edges'], max(1, cap // per_edge))
    for e in mc['edges'] + mc['viols']:
        h = engine.norm_hist(e['hist'])
        if stage.get('jobs_for'):
            for kw in stage['jobs_for'](e['ci'], h, rng):
                jobs.append((e['ci'], h, kw, False))
            continue
        for kw in stage['variants']:
            jobs.append((e['ci'], h, dict(kw), False))
    nedge_jobs = len(jobs)
    mc['edges'] = mc['edges'][:3]       # (memory: the histories live on in the jobs)
    # code side: seeded random drivers on larger charts (appended to the chart list)
    rd = stage.get('random')
    allcharts = list(charts)
    if rd:
        extra = rd['family'](rng, max(1, rd['count'] // 5))
        base = len(allcharts)
        allcharts += extra
        for i in range(rd['count']):
            ci = base + 1 + (i % len(extra))
            h = rd['hist'](rng, allcharts[ci - 1], rd['length']) if rd.get('hist') else \
                engine.random_history(rng, allcharts[ci - 1], rd['length'], delays=rd.get('delays', (0,)),
                                      advances=rd.get('advances', ()), params=rd.get('params', (0,)),
                                      maxq=rd.get('maxq', 3), pfail=rd.get('pfail', 0.0),
                                      pmfail=rd.get('pmfail', 0.0), pexec=rd.get('pexec', 0.0))
            if stage.get('jobs_for'):
                kws = stage['jobs_for'](ci, h, rng)
                if kws:
                    jobs.append((ci, h, kws[0], True))
                continue
            jobs.append((ci, h, dict(stage['variants'][i % len(stage['variants'])]), True))
    t1 = time.time()
    traces = engine.replay(allcharts, jobs)
    out['replay_wall_s'] = round(time.time() - t1, 2)
    errs = [t for t in traces if t.get('error')]
    if errs:
        raise Machinery('replay failed: ' + errs[0]['error'])
    for hs in stage.get('other_process', []):
        tb = engine.replay_other_process(allcharts, jobs, hs, mc['dir'])
        ta = json.loads(json.dumps(traces[:len(tb)]))
        engine.attach_refs(ta, tb, 'variant')
        for i, t in enumerate(ta):
            t['kw'] = dict(t['kw'], hashseed=hs)
            t['id'] = 10 ** 7 * (1 + stage['other_process'].index(hs)) + i
        traces += ta
    reports, st = engine.trace_check(name, allcharts, traces)
    out.update(trace_wall_s=st['wall_s'], trace_states=st['states'], trace_cmd=st['cmd'],
               traces=len(traces), edge_traces=nedge_jobs, random_traces=len(traces) - nedge_jobs,
               lines=sum(len(t['lines']) for t in traces))
    if st['errors']:
        raise Machinery('TLC failed on the trace check:\n' + str(st['errors'][0]))
    alluids = {u for t in traces for u in t['uids']}
    missing = [u for u in alluids if u not in reports]
    if missing:
        raise Machinery('%d recorded lines got no verdict from the trace spec (first uid %d)' % (len(missing), missing[0]))
    out['lines_evaluated'] = len(alluids)
    viol, cross, divs = [], Counter(), 0
    crossv = []
    seen = set()
    divsamples = []
    for t in traces:
        for ln, u in enumerate(t['uids']):
            if u in seen:
                continue
            seen.add(u)
            r = reports[u]
            if r['div']:
                divs += 1
                if len(divsamples) < 3:
                    divsamples.append({'chart': t['ci'], 'kw': t['kw'], 'hist': t['hist'][:ln + 1],
                                       'observed': t['lines'][ln], 'model': r.get('pred')})
            mine = [[ln + 1, b[0], b[1]] for b in r['bad'] if b[0] == prop]
            for b in r['bad']:
                if b[0] != prop:
                    cross['%s.%s' % (b[0], b[1])] += 1
            exc = t['lines'][ln]['exc']
            if crashed(exc):
                # the call (or building the statechart through the public API) did not return, or ended with an
                # exception that is none of the documented ones, although the model says it returns: no clause of
                # any property can hold for a result that never comes
                mine.append([ln + 1, prop, 'returns'])
            if mine:
                viol.append((dict(t, hist=t['hist'][:ln + 1], lines=t['lines'][:ln + 1]), mine, r))
            elif len(crossv) < 40 and any(b[0] != prop for b in r['bad']):
                crossv.append((dict(t, hist=t['hist'][:ln + 1], lines=t['lines'][:ln + 1]),
                               [[ln + 1, b[0], b[1]] for b in r['bad'] if b[0] != prop], r))
    out['cross_samples'] = crossv
    out['skipped_after_hangs'] = sum(1 for t in traces if t.get('skipped'))
    out['divergences'] = divs
    out['divergence_samples'] = divsamples
    out['cross_failures'] = dict(cross)
    out['wall_s'] = round(time.time() - t0, 2)
    samples = []
    for t in traces[:1] + traces[nedge_jobs:nedge_jobs + 1]:
        samples.append({'chart': allcharts[t['ci'] - 1], 'variant': t['kw'], 'hist': t['hist'],
                        'observed_last_line': t['lines'][-1] if t['lines'] else None})
    return out, viol, allcharts, samples, mc


def main(prop, tier, seed, replay_path=None):
    t0 = time.time()
    rng = random.Random(seed * 7919 + hash(prop) % 1000 if False else seed * 7919 + int(prop[1:]))
    if replay_path:
        return replay_file(prop, replay_path)
    stages = CONFIGS[prop](tier, rng)
    cov = dict(states=0, transitions=0, traces_validated_against_impl=0, samples=[], stages=[],
               exhaustive=False, edges_replayed=0)
    nviol = 0
    ncross = 0
    known = 0
    lines_out = []
    try:
        for stage in stages:
            out, viol, allcharts, samples, mc = run_stage(prop, tier, seed, stage, rng)
            cov['stages'].append(out)
            cov['states'] += out['mc_states']
            cov['transitions'] += out['mc_transitions']
            cov['traces_validated_against_impl'] += out['traces']
            cov['edges_replayed'] += out['edge_traces']
            cov['samples'] += samples
            cov['exhaustive'] = out['mc_completed'] and not out['model_violations']
            findings = evd.open_findings(prop)
            for (t, mine, r) in viol:
                doc = {'property': prop, 'chart': allcharts[t['ci'] - 1], 'hist': t['hist'], 'kw': t['kw'],
                       'failing': mine, 'lines': t['lines']}
                kf = match_finding(findings, doc)
                if kf:
                    known += 1
                    continue
                nviol += 1
                if nviol <= 5:
                    path = evd.write_replay(prop, nviol, doc)
                    lines_out.append('VIOLATION property=%s replay=%s' % (prop, path))
                    lines_out.append('  clauses=%s chart#%d variant=%s' % (
                        sorted({b[2] for b in mine}), t['ci'], t['kw']))
            # a clause of ANOTHER listed property failed on a real execution while this one was being checked: that is a
            # violation of that property all the same; it is reported under its own id
            for (t, theirs, r) in out.pop('cross_samples', []):
                ncross += 1
                if ncross <= 3:
                    other = theirs[0][1]
                    doc = {'property': other, 'chart': allcharts[t['ci'] - 1], 'hist': t['hist'], 'kw': t['kw'],
                           'failing': theirs, 'lines': t['lines'], 'observed_by': prop}
                    path = evd.write_replay(prop, 50 + ncross, doc)
                    lines_out.append('VIOLATION property=%s replay=%s' % (other, path))
                    lines_out.append('  clauses=%s chart#%d variant=%s (observed while checking %s)' % (
                        sorted({'%s.%s' % (b[1], b[2]) for b in theirs}), t['ci'], t['kw'], prop))
            if out['model_violations'] and not viol:
                raise Machinery('the operational model violates %s on an input the real code handles '
                                'correctly: the model misrepresents the code (see %s)' % (prop, mc['dir']))
        if prop == 'C02':
            qcharts = stages[0]['charts']
            out, qviol = run_queries_stage(prop, qcharts, rng)
            cov['stages'].append(out)
            cov['traces_validated_against_impl'] += out['traces']
            for (ln, bad) in qviol:
                nviol += 1
                if nviol <= 5:
                    path = evd.write_replay(prop, nviol, {'property': prop, 'chart': qcharts[ln['ci'] - 1], 'answers': ln,
                                                          'failing': bad})
                    lines_out.append('VIOLATION property=%s replay=%s' % (prop, path))
                    lines_out.append('  structural queries disagree with Chart.tla: %s' % bad)
        if prop == 'C09':
            out, viol, allcharts, samples = run_shipped_twin_stage(prop, tier, seed)
            cov['stages'].append(out)
            cov['traces_validated_against_impl'] += out['traces']
            cov['samples'] += samples
            for (t, mine, r) in viol:
                nviol += 1
                if nviol <= 5:
                    path = evd.write_replay(prop, nviol, {'property': prop, 'chart': allcharts[t['ci'] - 1], 'hist': t['hist'],
                                                          'kw': t['kw'], 'failing': mine, 'lines': t['lines']})
                    lines_out.append('VIOLATION property=%s replay=%s' % (prop, path))
                    lines_out.append('  clauses=%s (shipped chart run with its real code)' % sorted({b[2] for b in mine}))
        if prop in SUITE_STAGE and (tier == THOROUGH or prop in SUITE_QUICK):
            out, viol, allcharts, samples = run_suite_stage(prop, tier)
            cov['stages'].append(out)
            cov['traces_validated_against_impl'] += out['traces']
            cov['samples'] += samples
            for (t, mine, r) in viol:
                nviol += 1
                if nviol <= 5:
                    path = evd.write_replay(prop, nviol, {'property': prop, 'chart': allcharts[t['ci'] - 1], 'hist': t['hist'],
                                                          'kw': t['kw'], 'failing': mine, 'lines': t['lines']})
                    lines_out.append('VIOLATION property=%s replay=%s' % (prop, path))
                    lines_out.append('  clauses=%s (recorded run of the repository test-suite)' % sorted({b[2] for b in mine}))
    except Machinery as e:
        print('MACHINERY-FAILURE property=%s: %s' % (prop, e))
        cov['machinery_failure'] = str(e)
        evd.write_evidence(prop, tier, seed, dict(cov, samples=cov['samples'] or ['none']),
                           time.time() - t0, 0)
        return 2
    cov['rule'] = ('states/transitions: TLC on spec/Sismic.tla over the chart family; every explored edge is '
                   'replayed on the real Interpreter and the recorded trace is evaluated by TLC '
                   '(spec/SismicTrace.tla) against the declarative formulas of spec/Props.tla')
    cov['known_findings_reproduced'] = known
    cov['violations_of_other_properties'] = ncross
    for f in evd.open_findings(prop):
        if known:
            print('KNOWN-FINDING: property=%s %s' % (prop, f.get('what', f.get('id'))))
    for ln in lines_out:
        print(ln)
    evd.write_evidence(prop, tier, seed, cov, time.time() - t0, nviol + ncross,
                       assumptions=['TLC and the CommunityModules', 'harness/realize.py builds the chart it is given',
                                    'probes injected through initial_context report honestly',
                                    'bounds: see stages[].consts'])
    print('%s %s: %d charts-stages, %d states, %d edges replayed, %d traces validated, %d violations, %.1fs' % (
        prop, tier, len(stages), cov['states'], cov['edges_replayed'], cov['traces_validated_against_impl'],
        nviol, time.time() - t0) + (' (+%d of other properties)' % ncross if ncross else ''))
    return 1 if (nviol or ncross) else 0


def match_finding(findings, doc):
    for f in findings:
        cl = set(f.get('clauses', []))
        if cl and {b[2] for b in doc['failing']} <= cl:
            return f
    return None


def replay_file(prop, path):
    with open(path if os.path.isabs(path) else os.path.join(tlc.VERIF, path)) as f:
        doc = json.load(f)
    c = doc['chart']
    traces = engine.replay([c], [(1, doc['hist'], doc['kw'], True)])
    reports, st = engine.trace_check('%s_replay' % prop, [c], traces)
    allbad = []
    for ln, u in enumerate(traces[0]['uids']):
        allbad += [[ln + 1] + list(b) for b in reports[u]['bad']]
        exc = traces[0]['lines'][ln]['exc']
        if crashed(exc):
            allbad.append([ln + 1, prop, 'returns'])
    print(json.dumps({'failing': allbad}))
    r = {'bad': [b[1:] for b in allbad]}
    want = doc.get('property', prop)
    mine = [b for b in (r['bad'] if r else []) if b[0] == want]
    if mine:
        print('VIOLATION property=%s replay=%s' % (want, path))
        return 1
    return 0
