"""Confirm a seeded change in a scratch worktree, then run checks against it applied to /repo.

usage: seedtest.py <dir with patch.diff demo.py notes.txt> <seed id> <property> [check ids...]
Writes /verif/seeded/<seed id>/{patch.diff,demo.py,notes.txt,meta.json}.
"""
import json
import os
import shutil
import subprocess
import sys
import time
import xml.etree.ElementTree as ET

VERIF = os.path.dirname(os.path.dirname(os.path.abspath(__file__)))
SCRATCH = '/tmp/mut/verify'


def sh(cmd, cwd=None, env=None, timeout=3600):
    p = subprocess.run(cmd, cwd=cwd, env=env, shell=isinstance(cmd, str), stdout=subprocess.PIPE,
                       stderr=subprocess.STDOUT, text=True, timeout=timeout)
    return p.returncode, p.stdout


def suite(cwd):
    base = json.load(open('/root/.vp/BASELINE.json'))
    want = set(base['stable_pass'])
    path = '/tmp/mut/junit_%d.xml' % os.getpid()
    env = dict(os.environ)
    env.pop('SISMIC_VERIF', None)
    env['PYTHONPATH'] = cwd
    sh(['/venv/bin/python', '-m', 'pytest', '-q', '-p', 'no:cacheprovider', '--timeout=900',
        '--continue-on-collection-errors', '--junitxml=' + path], cwd=cwd, env=env)
    passed = set()
    for tc in ET.parse(path).getroot().iter('testcase'):
        if not any(ch.tag in ('failure', 'error', 'skipped') for ch in tc):
            passed.add('%s::%s' % (tc.get('classname'), tc.get('name')))
    return sorted(want - passed)


def main():
    src, sid, prop = sys.argv[1], sys.argv[2], sys.argv[3]
    checks = sys.argv[4:] or [prop]
    patch = os.path.abspath(os.path.join(src, 'patch.diff'))
    ported = os.path.abspath(os.path.join(src, 'patch_ported.diff'))
    if os.path.exists(ported):    # same change, re-based by hand after a later fix: commit touched the same lines
        patch = ported
    demo = os.path.abspath(os.path.join(src, 'demo.py'))
    meta = {'id': sid, 'property': prop, 'source': 'independent sub-agent given only the property text',
            'rebased': os.path.basename(patch) != 'patch.diff'}
    notes = os.path.join(src, 'notes.txt')
    meta['needs'] = open(notes).read().strip() if os.path.exists(notes) else ''
    # ---- confirmation in a scratch worktree
    SCRATCH = '/tmp/mut/verify_' + sid
    prev = os.path.join(VERIF, 'seeded', sid, 'meta.json')
    recheck = os.environ.get('SEED_RECHECK') and os.path.exists(prev) and json.load(open(prev)).get('kept')
    if recheck:         # already confirmed: only re-run the checks
        old = json.load(open(prev))
        meta['applies'], meta['confirmed'], meta['kept'] = old['applies'], old['confirmed'], True
        return run_checks(meta, True, patch, demo, notes, src, sid, checks)
    if os.path.exists(SCRATCH):
        sh(['git', '-C', '/repo', 'worktree', 'remove', '--force', SCRATCH])
    sh(['git', '-C', '/repo', 'worktree', 'add', '-q', '--detach', SCRATCH, 'HEAD'])
    env = dict(os.environ, PYTHONPATH=SCRATCH)
    env.pop('SISMIC_VERIF', None)
    rc0, _ = sh(['/venv/bin/python', demo], cwd=SCRATCH, env=env)
    rca, out = sh(['git', 'apply', patch], cwd=SCRATCH)
    meta['applies'] = rca == 0
    rc1, demo_out = sh(['/venv/bin/python', demo], cwd=SCRATCH, env=env)
    missing = suite(SCRATCH) if rca == 0 else ['patch does not apply']
    sh(['git', '-C', '/repo', 'worktree', 'remove', '--force', SCRATCH])
    meta['confirmed'] = {'demo_exit_without_change': rc0, 'demo_exit_with_change': rc1,
                         'stable_tests_broken_by_change': missing,
                         'demo_output_with_change': demo_out[-1500:]}
    ok = rca == 0 and rc0 == 0 and rc1 != 0 and not missing
    meta['kept'] = ok
    print('confirm %s: applies=%s demo %d -> %d, broken stable tests: %d  => %s' % (
        sid, rca == 0, rc0, rc1, len(missing), 'KEPT' if ok else 'REJECTED'))
    return run_checks(meta, ok, patch, demo, notes, src, sid, checks)


def run_checks(meta, ok, patch, demo, notes, src, sid, checks):
    # ---- run the checks against it
    meta['checks'] = {}
    scratch_run = os.environ.get('SEED_SCRATCH')
    if ok:
        target = '/repo'
        envx = dict(os.environ, SEEDTEST='1')
        if scratch_run:     # run against a scratch worktree instead of /repo (lets other checks use /repo meanwhile)
            target = '/tmp/mut/run_' + sid
            sh(['git', '-C', '/repo', 'worktree', 'remove', '--force', target])
            sh(['git', '-C', '/repo', 'worktree', 'add', '-q', '--detach', target, 'HEAD'])
            envx['VERIF_REPO'] = target
            envx['VERIF_WORK'] = 'seed_' + sid
        st, _ = sh(['git', '-C', target, 'status', '--porcelain'])
        assert _ .strip() == '', target + ' is not clean'
        try:
            rc, out = sh(['git', '-C', target, 'apply', patch])
            assert rc == 0, out
            for ck in checks:
                t0 = time.time()
                rc, out = sh([os.path.join(VERIF, 'check'), ck, '--tier', 'quick'], cwd=VERIF, env=envx)
                viol = [l for l in out.splitlines() if l.startswith('VIOLATION')]
                meta['checks'][ck] = {'exit': rc, 'violation_lines': viol[:3], 'wall_s': round(time.time() - t0, 1),
                                      'tail': out.splitlines()[-3:]}
                print('  check %s on %s: exit %d (%s) %.0fs' % (ck, sid, rc, 'CAUGHT' if rc == 1 else 'missed' if rc == 0 else 'MACHINERY', time.time() - t0))
        finally:
            if scratch_run:
                sh(['git', '-C', '/repo', 'worktree', 'remove', '--force', target])
            else:
                sh(['git', '-C', '/repo', 'checkout', '--', '.'])
                sh(['git', '-C', '/repo', 'clean', '-fdq', 'sismic'])
    meta['caught_by'] = [k for k, v in meta['checks'].items() if v['exit'] == 1]
    dst = os.path.join(VERIF, 'seeded', sid)
    if ok:
        os.makedirs(dst, exist_ok=True)
        if os.path.abspath(src) != os.path.abspath(dst):
            shutil.copy(patch, os.path.join(dst, 'patch.diff'))
            shutil.copy(demo, os.path.join(dst, 'demo.py'))
            if os.path.exists(notes):
                shutil.copy(notes, os.path.join(dst, 'notes.txt'))
        meta['ran'] = ['scratch worktree: demo.py without/with patch, pinned test suite with patch',
                       ('scratch worktree (VERIF_REPO)' if scratch_run else '/repo') + ' with patch applied: ' + ', '.join('./check %s --tier quick' % c for c in checks)]
        with open(os.path.join(dst, 'meta.json'), 'w') as f:
            json.dump(meta, f, indent=1)
    return 0


if __name__ == '__main__':
    sys.exit(main())
