"""The shared engine of the interpreter checks (C01-C10, C13, C15, C17, C18): DESIGN.md section 3.

  family -> TLC on Sismic.tla (design check, edge emission) -> replay on the real code ->
  TLC on SismicTrace.tla (declarative formulas on recorded executions) -> verdict + evidence
"""
import json
import multiprocessing
import os
import random
import sys
import time

import gen_charts as gc
import tlc
import driver
import evidence as ev

VERIF = tlc.VERIF


# ------------------------------------------------------------------ design check (spec only)

DEFAULT_CONSTS = dict(MaxQ=1, MaxClk=0, Delays={0}, Advances=set(), Params={0},
                      Opt={'ignore': False, 'metas': True}, MaxCFail=0, MaxMFail=0, MaxLevel=12,
                      EmitEdges=True, Twin='', ExecMany=False)


def model_check(name, charts, prop, consts, timeout, workers=16, simulate=None, emit=True):
    d = tlc.workdir(name)
    with open(os.path.join(d, 'ChartsData.tla'), 'w') as f:
        f.write(gc.tla_charts_module('ChartsData', charts))
    k = dict(DEFAULT_CONSTS)
    k.update(consts)
    k['EmitEdges'] = bool(emit)
    defs = ['ASSUME ChartsWF',
            'MCProp == [][BadOf("%s", c, G, last\') = {}]_vars' % prop,
            'EmitViol == (BadOf("%s", c, G, last\') # {}) => '
            'PrintT(ToJson([viol |-> SetToSeq(BadOf("%s", c, G, last\')), ci |-> ci, hist |-> hist\']))'
            % (prop, prop)]
    tlc.write_mc(d, 'Sismic', k, defs=defs, props=['MCProp'], view='View', constraints=['Bounded'],
                 action_constraints=['EmitViol', 'Emit'])
    r = tlc.run(d, workers=workers, timeout=timeout, simulate=simulate)
    edges, viols = [], []
    for j in r['json']:
        if isinstance(j, dict) and 'viol' in j:
            viols.append(j)
        elif isinstance(j, dict) and 'hist' in j:
            edges.append(j)
    r['edges'] = edges
    r['viols'] = viols
    r['json'] = None        # (memory: the parsed lines live on in edges / viols only)
    r['dir'] = d
    return r


def norm_hist(h):
    """TLC's ToJson prints empty sequences as {} : normalise the history entries."""
    if isinstance(h, dict):
        h = []
    out = []
    for e in h:
        e = dict(e)
        if isinstance(e.get('gv'), dict):
            e['gv'] = []
        out.append(e)
    return out


# ------------------------------------------------------------------ replay on the real code

def _replay_one(args):
    c, ci, hist, kw, chk_all, tid = args
    if driver.HANGS >= driver.HANG_BUDGET:
        # the code under test hangs: the hangs already observed by this worker are reported, the rest is skipped
        return {'id': tid, 'ci': ci, 'opt': {'ignore': bool(kw.get('ignore_contract', False)), 'metas': bool(kw.get('metas', True))},
                'lines': [], 'hist': [], 'kw': kw, 'skipped': 'after hangs'}
    try:
        if 'fork' in kw:
            k2 = dict(kw)
            fk = k2.pop('fork')
            orig, cp = driver.run_fork(c, hist, fk['at'], fk['mode'], **k2)
            base = {'ci': ci, 'opt': {'ignore': bool(kw.get('ignore_contract', False)),
                                      'metas': bool(kw.get('metas', True))}}
            return [dict(base, id=tid, lines=orig, hist=hist[:len(orig)], kw=dict(kw, role='original')),
                    dict(base, id=-tid, lines=cp, hist=hist[:len(cp)], kw=dict(kw, role='copy'))]
        lines, _ = driver.run_history(c, hist, **kw)
    except Exception as e:  # harness failure, reported as machinery error
        import traceback
        return {'id': tid, 'ci': ci, 'error': '%s: %s\n%s' % (type(e).__name__, e, traceback.format_exc()[-800:]), 'lines': []}
    return {'id': tid, 'ci': ci, 'opt': {'ignore': bool(kw.get('ignore_contract', False)),
                                         'metas': bool(kw.get('metas', True))},
            'lines': lines, 'hist': hist, 'kw': kw}


def replay(charts, jobs, procs=16):
    """jobs: list of (ci (1-based), hist, kw, chk_all).  Returns list of trace dicts."""
    args = [(charts[ci - 1], ci, hist, kw, chk_all, i + 1) for i, (ci, hist, kw, chk_all) in enumerate(jobs)]
    if len(args) < 200 or procs <= 1:
        res = [_replay_one(a) for a in args]
    else:
        with multiprocessing.Pool(procs) as pool:
            res = pool.map(_replay_one, args, chunksize=max(1, len(args) // (procs * 8)))
    out = []
    for r in res:
        out += r if isinstance(r, list) else [r]
    return out


def replay_other_process(charts, jobs, hashseed, workdir):
    """The same jobs replayed in a fresh python process under another PYTHONHASHSEED."""
    import subprocess
    inp = os.path.join(workdir, 'jobs_%s.json' % hashseed)
    outp = os.path.join(workdir, 'traces_%s.json' % hashseed)
    with open(inp, 'w') as f:
        json.dump({'charts': charts, 'jobs': jobs}, f)
    env = dict(os.environ, PYTHONHASHSEED=str(hashseed))
    p = subprocess.run([sys.executable, os.path.join(VERIF, 'harness', 'replay_worker.py'), inp, outp],
                       env=env, stdout=subprocess.PIPE, stderr=subprocess.STDOUT, text=True)
    if p.returncode != 0:
        raise RuntimeError('replay worker failed: ' + p.stdout[-2000:])
    with open(outp) as f:
        return json.load(f)


def attach_refs(traces_a, traces_b, rel):
    """Line by line, what the twin run (traces_b) observed becomes the ref of traces_a."""
    for ta, tb in zip(traces_a, traces_b):
        for la, lb in zip(ta['lines'], tb['lines']):
            la['ref'] = driver.ref_of(rel, lb)
        if len(tb['lines']) != len(ta['lines']):
            # the twin stopped at another step: make the first unmatched line disagree visibly
            n = min(len(ta['lines']), len(tb['lines']))
            if n < len(ta['lines']):
                ta['lines'][n]['ref'] = dict(driver.NOREF, rel=rel, exc='<twin run ended earlier>')


# ------------------------------------------------------------------ random drivers (code side)

def random_history(rng, c, length, delays=(0,), advances=(), params=(0,), pfail=0.0, maxq=3, pmfail=0.0, pexec=0.0):
    """A seeded random input history for chart c."""
    hist = []
    ntr = len(c['trans'])
    q = 0
    hist.append({'op': 'exec', 'gv': [rng.random() < 0.5 for _ in range(ntr)], 'cfail': 0, 'mfail': 0})
    for _ in range(length):
        r = rng.random()
        if r < 0.4 and q < maxq:
            hist.append({'op': 'queue', 'ev': rng.choice(c['events']), 'par': rng.choice(params),
                         'dl': rng.choice(delays)})
            q += 1
        elif r < 0.5 and advances:
            hist.append({'op': 'adv', 'd': rng.choice(advances)})
        else:
            cf = rng.randint(1, 12) if rng.random() < pfail else 0
            mf = rng.randint(1, 25) if (not cf and rng.random() < pmfail) else 0
            hist.append({'op': 'exec', 'gv': [rng.random() < 0.5 for _ in range(ntr)], 'cfail': cf,
                         'mfail': mf})
            q = max(0, q - 1)
    if rng.random() < pexec:        # Interpreter.execute(max_steps) as the last call
        for _ in range(rng.randint(1, 3)):
            hist.append({'op': 'queue', 'ev': rng.choice(c['events']), 'par': rng.choice(params), 'dl': 0})
        hist.append({'op': 'execute', 'ev': rng.choice([1, 2, 3, 4]), 'par': 0, 'dl': 0,
                     'gv': [rng.random() < 0.5 for _ in range(ntr)], 'cfail': 0, 'mfail': 0})
    return hist


# ------------------------------------------------------------------ trace check (code -> spec)

def build_trees(traces):
    """Merge traces of one (chart, build variant, options) that share a history prefix into a trie.
    Sets t['uids'] = node uid of every line of trace t.  Returns the list of trees."""
    trees = {}
    uid = 0
    for t in traces:
        if t.get('error') or not t['lines']:
            t['uids'] = []
            continue
        key = (t['ci'], json.dumps(t['kw'], sort_keys=True))
        tree = trees.get(key)
        if tree is None:
            tree = trees[key] = {'ci': t['ci'], 'opt': t['opt'], 'roots': [], 'nodes': [], '_index': {}}
        cur = 0
        uids = []
        for h, line in zip(t['hist'], t['lines']):
            k = (cur, json.dumps(h, sort_keys=True))
            idx = tree['_index'].get(k)
            if idx is None:
                uid += 1
                node = {'uid': uid, 'kids': [], 'line': {x: line[x] for x in line if x != 'chk'}}
                tree['nodes'].append(node)
                idx = len(tree['nodes'])
                tree['_index'][k] = idx
                if cur == 0:
                    tree['roots'].append(idx)
                else:
                    tree['nodes'][cur - 1]['kids'].append(idx)
            uids.append(tree['nodes'][idx - 1]['uid'])
            cur = idx
        t['uids'] = uids
    out = []
    for tree in trees.values():
        del tree['_index']
        out.append(tree)
    return out, uid


def _trace_batch(args):
    name, charts_tla, trees, timeout, workers = args
    d = tlc.workdir(name)
    with open(os.path.join(d, 'ChartsData.tla'), 'w') as f:
        f.write(charts_tla)
    path = os.path.join(d, 'traces.json')
    with open(path, 'w') as f:
        json.dump(trees, f)
    tlc.write_mc(d, 'SismicTrace', {}, spec='TSpec')
    r = tlc.run(d, workers=workers, timeout=timeout, env={'TRACE_FILE': path}, heap='6g')
    reports = {}
    for j in r['json']:
        if isinstance(j, dict) and 'uid' in j:
            bad = j.get('bad')
            if isinstance(bad, dict):
                bad = []
            reports[j['uid']] = {'div': j['div'], 'bad': bad, 'pred': j.get('pred')}
    return {'reports': reports, 'wall_s': r['wall_s'], 'error': r['error'], 'generated': r['generated'],
            'timed_out': r['timed_out'], 'dir': d, 'cmd': r['cmd']}


def trace_check(name, charts, traces, timeout=1800, batch_nodes=12000, procs=4):
    """Evaluate Props on recorded traces with TLC.  Returns (reports by node uid, stats); sets t['uids']."""
    used = sorted({t['ci'] for t in traces})
    remap = {ci: i + 1 for i, ci in enumerate(used)}
    charts_tla = gc.tla_charts_module('ChartsData', [charts[ci - 1] for ci in used])
    trees, nnodes = build_trees(traces)
    for tr in trees:
        tr['ci'] = remap[tr['ci']]
    batches, cur, size = [], [], 0
    for tr in trees:
        cur.append(tr)
        size += len(tr['nodes'])
        if size >= batch_nodes:
            batches.append(cur)
            cur, size = [], 0
    if cur:
        batches.append(cur)
    procs = max(1, min(procs, len(batches)))
    workers = max(2, 16 // procs)
    args = [('%s_tr%d' % (name, i), charts_tla, b, timeout, workers) for i, b in enumerate(batches)]
    if len(args) <= 1:
        results = [_trace_batch(a) for a in args]
    else:
        with multiprocessing.Pool(procs) as pool:
            results = pool.map(_trace_batch, args)
    reports = {}
    stats = {'batches': len(args), 'wall_s': 0.0, 'states': 0, 'errors': [], 'cmd': '', 'nodes': nnodes}
    for r in results:
        reports.update(r['reports'])
        stats['wall_s'] = max(stats['wall_s'], r['wall_s'])
        stats['states'] += r['generated']
        stats['cmd'] = r['cmd']
        if r['error'] or r['timed_out']:
            stats['errors'].append(r['error'] or 'timeout')
    return reports, stats
