"""Drive the real Interpreter along an input history and record one observation per public call
(DESIGN.md 5.2 / 5.3).  The observation has exactly the shape Props.tla expects.
"""
import copy
import functools
import json
import os
import pickle

from sismic.interpreter import Interpreter
from sismic.model import Event, InternalEvent, MetaEvent
from sismic import exceptions as sx

import realize
from probes import Probes, Listener, Mon, META_NAMES, ev_id, Runaway

FATAL = ('PreconditionError', 'PostconditionError', 'InvariantError', 'PropertyStatechartError')


class Hang(BaseException):
    """A public call did not return within CALL_LIMIT seconds (observed as the outcome 'Hang')."""


CALL_LIMIT = float(os.environ.get('VERIF_CALL_LIMIT', '15'))
HANGS = 0          # calls of this process that did not return (a few are enough: later jobs are skipped)
HANG_BUDGET = 2


def _alarm(signum, frame):
    global HANGS
    HANGS += 1
    raise Hang()


class watchdog:
    """Bounds one call into the code under test (main thread of the process only; a no-op elsewhere)."""

    depth = 0

    def __enter__(self):
        import signal
        import threading
        self.on = threading.current_thread() is threading.main_thread() and watchdog.depth == 0
        watchdog.depth += 1
        if self.on:
            self.old = signal.signal(signal.SIGALRM, _alarm)
            signal.setitimer(signal.ITIMER_REAL, CALL_LIMIT)
        return self

    def __exit__(self, *a):
        watchdog.depth -= 1
        if self.on:
            import signal
            signal.setitimer(signal.ITIMER_REAL, 0)
            signal.signal(signal.SIGALRM, self.old)
        return False


class Run:
    """A real interpreter for an abstract chart plus the projection of its state."""

    def __init__(self, c, variant='api', pool='plain', seed=0, ignore_contract=False, metas=True,
                 monitor=False, sc=None, names=None, rename=None, reimport=False, copy_into=False,
                 manual_execute=False, shadow=False, epoch=0, device=False, moving=False, running=False):
        self.c = c
        self.shadow = None
        self.manual_execute = manual_execute
        self.host_only = set()
        self.broken = ''
        self.interp = None
        self.moving = None
        self.running = False
        self.wall = 1000
        self.base = 0
        self.listener = self.listener2 = self.mon = None
        self.opt = {'ignore': bool(ignore_contract), 'metas': bool(metas)}
        self.returned = []
        self.evcache = {}
        self.probes = Probes()
        try:
            # building the statechart under test goes through the public API too: a call that fails or does not
            # return is an observation of this run (every call reports it), not a crash of the harness
            with watchdog():
                if sc is None:
                    sc, names = realize.build(c, variant, pool, seed)
                if rename is not None:
                    sc, names = realize.rename_some(sc, names, rename)
                if copy_into:
                    sc, names, self.host_only = realize.plug_into_host(sc, names, gc_root=realize.gc.root(c))
        except Hang:
            self.broken = 'BuildFailed:Hang'
        except Exception as e:
            self.broken = 'BuildFailed:' + type(e).__name__
        if self.broken:
            self.sc, self.names = None, (names or realize.names_for(c, pool))
            self.ids = {v: k for k, v in self.names.items()}
            return
        if reimport:
            from sismic.io import import_from_yaml, export_to_yaml
            try:
                with watchdog():
                    sc = import_from_yaml(export_to_yaml(sc))
            except (Exception, Hang) as e:      # observed, not hidden: every call of this run reports it
                self.broken = 'ReimportFailed:' + type(e).__name__
        self.sc, self.names = sc, names
        self.ids = {v: k for k, v in names.items()}
        self.probes = Probes()
        ctx = {'p': self.probes.p, 'g': self.probes.g, 'c': self.probes.c, 'tick': self.probes.tick,
               'dg': self.probes.dg, 'dc': self.probes.dc, 'NAMES': tuple(names[i] for i in sorted(names))}
        if device:      # an object of the environment that can be copied but neither deep-copied nor pickled
            from probes import Device
            ctx['dev'] = Device()
        self.base = epoch       # the run starts at a large absolute time (float resolution, tolerances)
        self.moving = None
        if moving:
            from probes import MovingClock
            self.moving = MovingClock(epoch)
            self.interp = Interpreter(sc, initial_context=ctx, ignore_contract=ignore_contract, clock=self.moving)
        elif running:
            # a SimulatedClock in real-time mode (start()ed) over a wall clock the harness controls: 'adv' lets real
            # time pass instead of assigning clock.time
            import probes as _pr
            import sismic.clock.clock as _cm
            from sismic.clock import SimulatedClock
            _cm.time = _pr.fake_wall
            self.running = True
            _pr.WALL[0] = self.wall
            clk = SimulatedClock()
            if epoch:
                clk.time = epoch
            clk.start()
            self.interp = Interpreter(sc, initial_context=ctx, ignore_contract=ignore_contract, clock=clk)
        elif epoch:
            from sismic.clock import SimulatedClock
            clk = SimulatedClock()
            clk.time = epoch
            self.interp = Interpreter(sc, initial_context=ctx, ignore_contract=ignore_contract, clock=clk)
        else:
            self.interp = Interpreter(sc, initial_context=ctx, ignore_contract=ignore_contract)
        self.probes.clock = self.interp.clock
        self.probes.base = epoch
        self.listener = None
        if metas:
            self.listener = Listener(self.probes)
            self.listener.interp = self.interp
            self.listener.names = self.ids
            self.interp.attach(self.listener)
        self.mon = None
        self.listener2 = None
        if monitor == 'watchdog':
            # a property statechart that arms a delayed self-sent event on the first state entered and turns final
            # when that event becomes due: it must be noticed at the very next meta-event, whatever its name
            self.interp.bind_property_statechart(watchdog_chart())
        elif monitor:
            self.mon = Mon()
            self.mon.base = epoch
            self.interp.bind_property_statechart(
                monitor_chart(), interpreter_klass=functools.partial(Interpreter, initial_context={'mon': self.mon}))
        if metas:
            self.listener2 = Listener(self.probes)
            self.listener2.share = False
            self.listener2.interp = self.interp
            self.listener2.names = self.ids
            self.interp.attach(self.listener2)
        self.opt = {'ignore': bool(ignore_contract), 'metas': bool(metas)}
        self.returned = []      # (MacroStep object, what it said when it was returned)
        if shadow:
            # a second, independent interpreter of the SAME Statechart object, kept busy between the calls of this
            # one (other clock values, every guard true, every event): instances must not influence each other
            self.shadow = Run(c, sc=self.sc, names=self.names, ignore_contract=True, metas=False)

    def disturb(self):
        sh = self.shadow
        try:
          with watchdog():
            sh.interp.clock.time += 3
            sh.probes.arm([True] * len(self.c['trans']), 0)
            for e in self.c['events'][:3]:
                sh.interp.queue(Event(realize.ev_name(e)))
            for _ in range(2):
                sh.interp.execute_once()
        except (Exception, Hang, Runaway):
            pass

    # ---- projection
    def state(self):
        it = self.interp
        if it is None:
            return {'conf': [], 'final': False, 'time': 0, 'x': 0}
        extra = len(set(it.context) - {'p', 'g', 'c', 'tick', 'x', 'box', 'lst', 'dg', 'dc', 'NAMES', 'dev'})     # nothing else may appear
        return {'conf': sorted(self.ids[n] for n in it.configuration if n not in self.host_only), 'final': bool(it.final),
                'time': it.time - self.base, 'x': it.context.get('x', -1) + 1000 * extra}

    def private(self):
        it = self.interp
        q = lambda qq: [[d, ev_id(e)[0], ev_id(e)[1]] for (d, e) in qq]
        return {'mem': {str(self.ids[k]): sorted(self.ids[x] for x in v) for k, v in it._memory.items()},
                'iq': q(it._internal_queue), 'eq': q(it._external_queue)}

    def flat_step(self, ms):
        steps = []
        for m in ms.steps:
            e, par = ev_id(m.event)
            cls = '' if m.event is None else ('i' if isinstance(m.event, InternalEvent) else 'e')
            sent = []
            for s in m.sent_events:
                i, p = ev_id(s)
                if isinstance(s, InternalEvent):
                    sent.append({'k': 'i', 'ev': i, 'dl': s.data.get('delay', 0), 'par': p})
                elif isinstance(s, MetaEvent):
                    nm = s.name
                    sent.append({'k': 'm', 'ev': int(nm[1:]) if nm[:1] == 'm' and nm[1:].isdigit() else -1,
                                 'dl': 0, 'par': 0})
                else:
                    sent.append({'k': '?', 'ev': i, 'dl': 0, 'par': p})
            st = {'ev': e, 'par': par, 'cls': cls,
                  'tr': realize.tid_of(m.transition) if m.transition is not None else 0,
                  'entered': [self.ids[n] for n in m.entered_states if n not in self.host_only],
                  'exited': [self.ids[n] for n in m.exited_states if n not in self.host_only], 'sent': sent}
            if self.host_only and not (st['ev'] or st['tr'] or st['entered'] or st['exited'] or sent):
                continue        # a micro step that only concerned the host's own states
            steps.append(st)
        return steps

    def testing_predicates(self, ms):
        """What sismic.testing says about a returned MacroStep (C19)."""
        from sismic import testing
        names = [n for n in self.ids if n not in self.host_only]
        evs = sorted(set(self.c['events']) | {t['ev'] for t in self.c['trans'] if t['ev']} | {1, 2, 3})
        fir = []
        for e in evs:
            nm = realize.ev_name(e)
            if testing.event_is_fired(ms, nm):
                fir.append([e, 0])
            for v in (7,):
                if testing.event_is_fired(ms, nm, {'v': v}):
                    fir.append([e, v])
        trs = [realize.tid_of(t) for t in self.sc.transitions if testing.transition_is_processed(ms, t)]
        return {'ent': sorted(self.ids[n] for n in names if testing.state_is_entered(ms, n)),
                'exi': sorted(self.ids[n] for n in names if testing.state_is_exited(ms, n)),
                'fir': fir,
                'con': [e for e in evs if testing.event_is_consumed(ms, realize.ev_name(e))],
                'trs': sorted(set(trs))}

    def owner_of(self, obj):
        from sismic.model import Transition
        if isinstance(obj, Transition):
            return -realize.tid_of(obj)
        return self.ids.get(getattr(obj, 'name', None), 0)

    # ---- one public call
    def call(self, h):
        """The call and the projection of the state before / after it, bounded by the watchdog as a whole."""
        global HANGS
        try:
            with watchdog():
                return self._call(h)
        except (Hang, Runaway) as e:
            if isinstance(e, Runaway):
                HANGS += 1
            ntr = len(self.c['trans'])
            z = {'conf': [], 'final': False, 'time': 0, 'x': 0}
            self.broken = 'Hang'        # the interpreter is not used any further
            return {'op': h['op'], 'ev': h.get('ev', 0), 'par': h.get('par', 0), 'dl': h.get('dl', 0),
                    'gv': [bool(v) for v in h.get('gv', [])] or [False] * ntr, 'cfail': h.get('cfail', 0),
                    'mfail': h.get('mfail', 0), 'clk': 0, 'pre': z, 'post': dict(z), 'some': False, 'rtime': 0, 'steps': [],
                    'exc': 'Hang', 'eobj': 0, 'eidx': 0, 'log': [], 'chk': 1, 'ign': self.opt['ignore'], 'stale': 0,
                    'opq': False, 'tp': dict(ent=[], exi=[], fir=[], con=[], trs=[]), 'hasl2': self.listener2 is not None,
                    'l2': [], 'mt': [], 'ref': dict(NOREF)}

    def _call(self, h):
        it = self.interp
        if self.running:
            import probes as _pr
            _pr.WALL[0] = self.wall
        op = h['op']
        ntr = len(self.c['trans'])
        gv = [bool(v) for v in h.get('gv', [])] or [False] * ntr
        o = {'op': op, 'ev': h.get('ev', 0), 'par': h.get('par', 0), 'dl': h.get('dl', 0),
             'gv': gv, 'cfail': h.get('cfail', 0), 'mfail': h.get('mfail', 0),
             'clk': it.clock.time - self.base if (it is not None and not self.broken) else 0,
             'pre': self.state() if not self.broken else {'conf': [], 'final': False, 'time': 0, 'x': 0}, 'some': False, 'rtime': 0, 'steps': [],
             'exc': '', 'eobj': 0, 'eidx': 0, 'log': [], 'chk': 1,
             'ign': self.opt['ignore'], 'stale': 0, 'opq': False, 'tp': dict(ent=[], exi=[], fir=[], con=[], trs=[]), 'hasl2': self.listener2 is not None, 'l2': [], 'mt': [],
             'ref': dict(NOREF)}
        if self.broken:
            o['exc'] = self.broken
            o['post'] = dict(o['pre'])
            o['rtime'] = o['post']['time']
            return o
        if self.shadow is not None:
            self.disturb()
        self.probes.arm(gv, o['cfail'])
        if self.mon is not None:
            self.mon.arm(o['mfail'])
        if self.listener2 is not None:
            self.listener2.seen = []
        try:
          if True:
            if op == 'queue':
                kw = {}
                if o['dl'] or h.get('xd', (o['ev'] + o['par'] + len(self.returned)) % 2 == 0):
                    kw['delay'] = o['dl']        # sometimes an explicit delay=0
                if o['par']:
                    kw['v'] = o['par']
                # the very same Event object may be queued more than once (every other time it is re-used)
                key = (o['ev'], tuple(sorted(kw.items())))
                evo = self.evcache.get(key) if len(self.returned) % 2 == 0 else None
                if evo is None:
                    evo = self.evcache[key] = Event(realize.ev_name(o['ev']), **kw)
                it.queue(evo)
            elif op == 'adv':
                if self.running:
                    self.wall += h.get('d', 0)
                    _pr.WALL[0] = self.wall
                else:
                    it.clock.time += h.get('d', 0)
            elif op == 'exec':
                if self.moving is not None:
                    self.moving.arm()
                try:
                    ms = it.execute_once()
                finally:
                    if self.moving is not None:
                        self.moving.disarm()
                if ms is not None:
                    o['some'] = True
                    o['steps'] = self.flat_step(ms)
                    o['rtime'] = ms.time - self.base
                    o['tp'] = self.testing_predicates(ms)
                    self.returned.append((ms, json.dumps(o['steps'])))
                    if len(self.returned) > 6:
                        self.returned.pop(0)
            elif op == 'execute':
                mx = o['ev'] if o['ev'] > 0 else -1
                if self.manual_execute:      # the twin: what repeated execute_once calls return
                    res = []
                    while True:
                        m1 = it.execute_once()
                        if m1 is None:
                            break
                        res.append(m1)
                        if 0 < mx == len(res):
                            break
                else:
                    res = it.execute(max_steps=mx)
                o['some'] = bool(res)
                o['steps'] = [st for m1 in res for st in self.flat_step(m1)]
                o['eidx'] = len(res)
                o['rtime'] = (res[-1].time if res else it.time) - self.base
            else:
                raise ValueError(op)
        except sx.ContractError as e:
            o['exc'] = type(e).__name__
            o['eobj'] = self.owner_of(e.obj)
            cond = e.condition or ''
            try:
                o['eidx'] = int(cond.split(',')[1 if cond.startswith('dc(') else 2])
            except (IndexError, ValueError):
                o['eidx'] = -1
        except sx.SismicError as e:
            o['exc'] = type(e).__name__
        except Exception as e:  # anything else is reported with its class name
            o['exc'] = type(e).__name__
        o['post'] = self.state()
        # the macro steps handed out earlier must still say the same thing
        o['stale'] = sum(1 for (m, was) in self.returned[:-1 if o['some'] else None]
                         if json.dumps(self.flat_step(m)) != was)
        if not o['some']:
            o['rtime'] = o['post']['time']
        o['log'] = list(self.probes.log)
        if self.host_only:      # meta-events about the host's own states are not part of the comparison
            o['log'] = [e for e in o['log'] if not (e['k'] in ('xmeta', 'emeta') and e['a'] == -1)]
        if self.listener2 is not None:
            o['l2'] = list(self.listener2.seen)
        if self.mon is not None:
            o['mt'] = list(self.mon.times)
        return o


NOREF = {'rel': '', 'exc': '', 'some': False, 'steps': [], 'log': [], 'conf': [], 'final': False, 'x': 0}


def ref_of(rel, o):
    return {'rel': rel, 'exc': o['exc'], 'some': o['some'], 'steps': o['steps'], 'log': o['log'],
            'conf': o['post']['conf'], 'final': o['post']['final'], 'x': o['post']['x']}


def monitor_chart():
    from sismic.model import Statechart, CompoundState, BasicState, FinalState, Transition
    sc = Statechart('monitor')
    sc.add_state(CompoundState('r', initial='w'), None)
    sc.add_state(BasicState('w'), 'r')
    sc.add_state(FinalState('f'), 'r')
    for name in META_NAMES + ['m1', 'm2', 'm3']:
        sc.add_transition(Transition('w', None, event=name, action='mon.rec(event, time)'))
    sc.add_transition(Transition('w', 'f', guard='mon.fire()'))
    return sc


def fork_run(r, mode):
    """A Run around a pickled/deep-copied snapshot of r's interpreter (C18)."""
    r2 = copy.copy(r)
    if r.running:
        import probes as _pr
        _pr.WALL[0] = r.wall
    try:
        if mode == 'pickle':
            it2 = pickle.loads(pickle.dumps(r.interp))
        else:
            it2 = copy.deepcopy(r.interp)
    except Exception as e:      # the snapshot itself failed: observed by every later call of the copy
        r2.broken = 'SnapshotFailed:' + type(e).__name__
        return r2
    r2.interp = it2
    r2.moving = it2.clock if r.moving is not None else None
    r2.sc = it2.statechart
    r2.probes = it2.context['p'].__self__
    ls = [l for l in it2._listeners if isinstance(l, Listener)]
    r2.listener = ls[0] if ls else None
    r2.listener2 = ls[1] if len(ls) > 1 else None
    r2.mon = None
    return r2


def run_fork(c, hist, at, mode, **kw):
    """Runs hist[:at], snapshots, then continues BOTH.  Returns (original lines, copy lines)."""
    r = Run(c, **kw)
    base = Run(c, **kw)          # never forked
    orig, cp = [], []
    r2 = None
    for i, h in enumerate(hist):
        if i == at:
            r2 = fork_run(r, mode)
        o = r.call(h)
        ob = base.call(h)
        if r2 is not None:
            o['ref'] = ref_of('undisturbed', ob)
            o2 = r2.call(h)
            o2['ref'] = ref_of('fork', o)
            cp.append(o2)
        else:
            cp.append(o)
        orig.append(o)
        if o['exc'] in FATAL or o['exc'] not in ('', 'NonDeterminismError', 'ConflictingTransitionsError'):
            break
    return orig, cp


WATCHDOG_DELAY = 2


def watchdog_chart():
    from sismic.model import Statechart, CompoundState, BasicState, FinalState, Transition
    sc = Statechart('watchdog', preamble='armed = False')
    sc.add_state(CompoundState('r', initial='w'), None)
    sc.add_state(BasicState('w'), 'r')
    sc.add_state(FinalState('f'), 'r')
    sc.add_transition(Transition('w', None, event='state entered', guard='not armed',
                                 action='armed = True\nsend("wd", delay=%d)' % WATCHDOG_DELAY))
    sc.add_transition(Transition('w', 'f', event='wd'))
    return sc


def watchdog_history(rng, c, length):
    """A random history for a run monitored by the watchdog; the call at which the watchdog must fire (the first
    execute_once whose step time is at least WATCHDOG_DELAY after the first one) carries mfail = 1."""
    ntr = len(c['trans'])
    hist = [{'op': 'exec', 'gv': [rng.random() < 0.5 for _ in range(ntr)], 'cfail': 0, 'mfail': 0}]
    clk = 0
    for _ in range(length):
        r = rng.random()
        if r < 0.3:
            hist.append({'op': 'queue', 'ev': rng.choice(c['events']), 'par': 0, 'dl': 0})
        elif r < 0.55:
            d = rng.choice([1, 1, 2, 3])
            hist.append({'op': 'adv', 'd': d})
            clk += d
        else:
            due = clk >= WATCHDOG_DELAY
            hist.append({'op': 'exec', 'gv': [rng.random() < 0.5 for _ in range(ntr)], 'cfail': 0,
                         'mfail': 1 if due else 0})
            if due:
                break
    return hist


def run_history(c, hist, twin=None, **kw):
    """Replay `hist` on a fresh interpreter.  Stops after a fatal (contract/property) error.
    twin = dict(rel=..., kw=...) runs a second interpreter in lock step and attaches what it observed
    to every line (o['ref']); calls with an injected failure get a failure-free twin automatically."""
    r = Run(c, **kw)
    b, rel = None, ''
    if twin:
        kb = dict(kw)
        kb.update(twin.get('kw', {}))
        b, rel = Run(c, **kb), twin['rel']
    elif any(h.get('cfail') or h.get('mfail') for h in hist):
        kb = dict(kw)
        if kb.get('monitor') == 'watchdog':
            kb['monitor'] = False       # the failure-free twin of a watchdog run has no watchdog
        b, rel = Run(c, **kb), 'nofail'
    lines = []
    for h in hist:
        o = r.call(h)
        if b is not None:
            if rel == 'nofail':
                ob = b.call(dict(h, cfail=0, mfail=0))
                if h.get('cfail') or h.get('mfail'):
                    o['ref'] = ref_of(rel, ob)
            else:
                o['ref'] = ref_of(rel, b.call(h))
        lines.append(o)
        if o['exc'] in FATAL or (o['exc'] and o['exc'] not in ('NonDeterminismError',
                                                               'ConflictingTransitionsError')):
            break
    return lines, r
