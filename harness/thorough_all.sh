#!/bin/sh
# run every thorough tier once (shakedown); prints one summary line per check
for p in "$@"; do
  s=$(date +%s)
  timeout 5400 ./check $p --tier thorough > thor_$p.log 2>&1
  echo "$p exit=$? $(( $(date +%s) - s ))s $(tail -1 thor_$p.log | cut -c1-160)"
done
