"""Code -> spec on executions the repository produces itself: the pinned test-suite and the documentation
examples are run with the env-guarded trace hook (sismic/_verif.py) on; every Interpreter they create
becomes one trace that TLC evaluates against the declarative formulas of Props.tla in OPAQUE mode (the
charts carry their own Python code: guard outcomes are bound from the record, log-based clauses are off).
"""
import json
import os
import subprocess
import sys

import gen_charts as gc
import tlc
from driver import NOREF, FATAL

KINDS = {'BasicState': 'basic', 'CompoundState': 'compound', 'OrthogonalState': 'orthogonal',
         'FinalState': 'final', 'ShallowHistoryState': 'shallow', 'DeepHistoryState': 'deep'}


def record(path, repo=None, targets=('tests', 'docs')):
    repo = repo or os.environ.get('VERIF_REPO', '/repo')
    if os.path.exists(path):
        os.unlink(path)
    env = dict(os.environ, SISMIC_VERIF='1', SISMIC_VERIF_TRACE=path, PYTHONPATH=repo)
    cmd = [sys.executable, '-m', 'pytest', '-q', '-p', 'no:cacheprovider', '--timeout=900',
           '--continue-on-collection-errors', '-x', '--deselect', 'tests/test_bdd.py::test_cli'] + list(targets)
    cmd.remove('-x')
    p = subprocess.run(cmd, cwd=repo, env=env, stdout=subprocess.PIPE, stderr=subprocess.STDOUT, text=True)
    return p.stdout[-400:]


def load(path):
    runs = {}
    with open(path) as f:
        for line in f:
            try:
                r = json.loads(line)
            except ValueError:
                continue
            if r['t'] == 'init':
                runs[r['iid']] = {'init': r, 'recs': []}
            elif r['iid'] in runs:
                runs[r['iid']]['recs'].append(r)
    return runs


def abstract(init):
    """Abstract chart of a recorded statechart, or None when it is outside the well-formed domain."""
    ch = init['chart']
    names = sorted(s['name'] for s in ch['states'])
    if not names or any(not isinstance(n, str) for n in names):
        return None
    ix = {n: i + 1 for i, n in enumerate(names)}
    by = {s['name']: s for s in ch['states']}
    kind, parent, initial, memory = [], [], [], []
    for n in names:
        s = by[n]
        k = KINDS.get(s['kind'])
        if k is None:
            return None
        if k in gc.COMPOSITE and not s['children']:
            k = 'basic'
        kind.append(k)
        parent.append(ix.get(s['parent'], 0))
        initial.append(ix.get(s['initial'], 0) if k == 'compound' else 0)
        memory.append(ix.get(s['memory'], 0) if k in gc.HISTORY else 0)
    evs = sorted({t['event'] for t in ch['transitions'] if t['event']})
    eix = {e: i + 1 for i, e in enumerate(evs)}
    c = gc.new_chart(kind, parent, initial, memory)
    tix = {}
    for t in ch['transitions']:
        if t['source'] not in ix or (t['target'] is not None and t['target'] not in ix):
            return None
        prio = t['priority'] if isinstance(t['priority'], int) else 0
        c['trans'].append(gc.mk_trans(ix[t['source']], ix.get(t['target'], 0), eix.get(t['event'], 0), prio,
                                      'oracle' if t['guarded'] else 'none'))
        tix[t['id']] = len(c['trans'])
    c['events'] = list(range(1, len(evs) + 2))
    if not gc.wf(c, need_initial=False):     # W3 is not needed to evaluate the formulas on a recorded run
        return None
    return c, ix, eix, tix


def to_trace(run, tid):
    a = abstract(run['init'])
    if a is None:
        return None
    c, ix, eix, tix = a
    recs = run['recs']
    if not recs:
        return None
    if len({r.get('thread') for r in recs}) > 1:
        return None         # driven from several threads: the order of the records is not the order of the effects (C20)
    # every time value that is compared: step times, and the due time of every queued / sent event
    vals = {run['init']['time']}
    for r in recs:
        if r['t'] == 'queue':
            vals.add(r['time'])
            vals.add(r['time'] + (r['delay'] or 0))
        else:
            vals.add(r['clock'])
            vals.add(r['pre']['time'])
            vals.add(r['post']['time'])
            if r.get('rtime') is not None:
                for m in r['steps']:
                    for e in m['sent']:
                        vals.add(r['rtime'] + (e['delay'] or 0))
    try:
        order = sorted(vals)
    except TypeError:
        return None
    rank = {v: i for i, v in enumerate(order)}

    def ev(name):
        if name is None:
            return 0
        if name not in eix:
            eix[name] = len(eix) + 1
            if len(eix) + 1 not in c['events']:
                c['events'].append(len(eix) + 1)
        return eix[name]
    ntr = len(c['trans'])
    st = {'conf': [], 'final': False, 'time': rank[run['init']['time']], 'x': 0}
    lines = []
    sig0 = run['init'].get('sig')
    for r in recs:
        if r['t'] == 'exec' and r.get('sig') != sig0:
            break           # the test edited the statechart while executing it: outside the recorded structure
        base = {'ev': 0, 'par': 0, 'dl': 0, 'gv': [False] * ntr, 'cfail': 0, 'mfail': 0, 'some': False, 'rtime': 0,
                'steps': [], 'exc': '', 'eobj': 0, 'eidx': 0, 'log': [], 'chk': 1, 'ign': bool(run['init'].get('ignore_contract')),
                'stale': 0, 'opq': True, 'tp': dict(ent=[], exi=[], fir=[], con=[], trs=[]), 'hasl2': False, 'l2': [], 'mt': [], 'ref': dict(NOREF)}
        if r['t'] == 'queue':
            t0 = rank[r['time']]
            pre = dict(st, time=t0)
            o = dict(base, op='queue', ev=ev(r['name']), dl=rank[r['time'] + (r['delay'] or 0)] - t0, clk=t0,
                     pre=pre, post=dict(pre), rtime=t0)
            st = dict(pre)
        else:
            try:
                pre = {'conf': sorted(ix[n] for n in r['pre']['conf']), 'final': bool(r['pre']['final']),
                       'time': rank[r['pre']['time']], 'x': 0}
                post = {'conf': sorted(ix[n] for n in r['post']['conf']), 'final': bool(r['post']['final']),
                        'time': rank[r['post']['time']], 'x': 0}
            except KeyError:
                return None
            gv = [False] * ntr
            for gid, val in r.get('guards', []):
                if gid in tix:
                    gv[tix[gid] - 1] = bool(val)
            steps = []
            rt = r.get('rtime')
            for m in r['steps']:
                if m['transition'] is not None and m['transition'] not in tix:
                    return None
                sent = []
                for e in m['sent']:
                    if e['cls'] == 'InternalEvent':
                        sent.append({'k': 'i', 'ev': ev(e['name']), 'dl': rank[rt + (e['delay'] or 0)] - rank[rt], 'par': 0})
                    else:
                        sent.append({'k': 'm', 'ev': 0, 'dl': 0, 'par': 0})
                try:
                    steps.append({'ev': ev(m['event']), 'par': 0,
                                  'cls': '' if m['event'] is None else ('i' if m['internal'] else 'e'),
                                  'tr': tix.get(m['transition'], 0),
                                  'entered': [ix[n] for n in m['entered']], 'exited': [ix[n] for n in m['exited']],
                                  'sent': sent})
                except KeyError:
                    return None
            exc = r.get('exc', '')
            o = dict(base, op='exec', gv=gv, clk=rank[r['clock']], pre=pre, post=post, some=bool(r['steps']),
                     rtime=rank[rt] if rt is not None else post['time'], steps=steps, exc=exc)
            st = dict(post)
        lines.append(o)
        if o['exc'] and o['exc'] not in ('NonDeterminismError', 'ConflictingTransitionsError'):
            break
    hist = [{'op': l['op'], 'ev': l['ev'], 'dl': l['dl'], 'gv': l['gv'], 'n': i} for i, l in enumerate(lines)]
    return {'id': tid, 'chart': c, 'lines': lines, 'hist': hist, 'kw': {'source': 'repository test-suite', 'iid': tid},
            'opt': {'ignore': False, 'metas': False}}


def collect(name, quick=True):
    """Run the suite under the hook and return (charts, traces, stats) ready for engine.trace_check."""
    d = tlc.workdir(name)
    path = os.path.join(d, 'suite.ndjson')
    tail = record(path)
    if not os.path.exists(path):
        raise RuntimeError('the test-suite produced no trace: ' + tail)
    runs = load(path)
    charts, traces, skipped = [], [], 0
    seen = {}
    for iid in sorted(runs):
        t = to_trace(runs[iid], iid)
        if t is None:
            skipped += 1
            continue
        key = json.dumps(t['chart'], sort_keys=True)
        if key not in seen:
            charts.append(t['chart'])
            seen[key] = len(charts)
        t['ci'] = seen[key]
        del t['chart']
        # identical recorded runs are checked once
        traces.append(t)
    uniq, seen_t = [], set()
    for t in traces:
        k = (t['ci'], json.dumps(t['lines'], sort_keys=True))
        if k not in seen_t:
            seen_t.add(k)
            uniq.append(t)
    for c in charts:
        c['events'] = sorted(set(c['events']))
    return charts, uniq, {'interpreters': len(runs), 'skipped_not_wellformed': skipped, 'distinct_runs': len(uniq),
                          'lines': sum(len(t['lines']) for t in uniq)}
