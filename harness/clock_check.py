"""C14: Clock.tla (design) + replay on the real SimulatedClock + ClockTrace.tla (code -> spec),
plus an interpreter stage for SynchronizedClock."""
import json
import os
import random
import time

import tlc
import evidence as evd


def drive(hist):
    """Replay clock operations on a real SimulatedClock under a scripted real-time source."""
    import sismic.clock.clock as cm

    class Src:
        now = 0

        def __call__(self):
            return self.now
    src = Src()
    saved = cm.time
    cm.time = src
    try:
        clk = cm.SimulatedClock()
        lines = []
        for h in hist:
            op, arg = h['op'], h['arg']
            before = clk.time
            exc = ''
            try:
                if op == 'start':
                    clk.start()
                elif op == 'stop':
                    clk.stop()
                elif op == 'speed':
                    clk.speed = arg
                elif op == 'set':
                    clk.time = arg
                elif op == 'pass':
                    src.now += arg
                else:
                    raise RuntimeError(op)
            except ValueError:
                exc = 'ValueError'
            except Exception as e:
                exc = type(e).__name__
            after = clk.time
            lines.append({'op': op, 'arg': arg, 'before': before, 'after': after, 'exc': exc})
        return lines
    finally:
        cm.time = saved


def apalache_inductive():
    """Unbounded integers: Init => IndInv, IndInv /\\ Next => IndInv', IndInv /\\ Next => Value' >= Value
    (spec/ClockInd.tla, same actions as Clock.tla without the history variables)."""
    import shutil
    import subprocess
    d = tlc.workdir('C14_apalache')
    obligations = [('Init', 'IndInv', 0), ('IndInit', 'IndInv', 1), ('IndInit', 'Monotonic', 1)]
    res = []
    for (init, inv, length) in obligations:
        cmd = ['apalache-mc', 'check', '--init=' + init, '--inv=' + inv, '--length=%d' % length,
               '--out-dir=' + os.path.join(d, 'out_%s_%s' % (init, inv)), 'ClockInd.tla']
        try:
            p = subprocess.run(cmd, cwd=d, stdout=subprocess.PIPE, stderr=subprocess.STDOUT, text=True, timeout=600)
            ok = 'EXITCODE: OK' in p.stdout
            tail = p.stdout[-300:]
        except Exception as e:
            ok, tail = False, str(e)
        res.append({'init': init, 'inv': inv, 'length': length, 'ok': ok, 'cmd': ' '.join(cmd), 'tail': '' if ok else tail})
    shutil.rmtree(os.path.join(d, 'out_Init_IndInv'), ignore_errors=True)
    return res


def intlike(x):
    return isinstance(x, int) or (isinstance(x, float) and x == int(x) and abs(x) < 2 ** 30)


def random_hist(rng, n):
    h = []
    for _ in range(n):
        r = rng.random()
        if r < 0.15:
            h.append({'op': 'start', 'arg': 0})
        elif r < 0.3:
            h.append({'op': 'stop', 'arg': 0})
        elif r < 0.45:
            h.append({'op': 'speed', 'arg': rng.choice([0, 1, 2, 3, 5, 10])})
        elif r < 0.65:
            h.append({'op': 'set', 'arg': rng.randint(0, 400)})
        else:
            h.append({'op': 'pass', 'arg': rng.choice([0, 1, 2, 3, 7, 20])})
    return h


def main(prop, tier, seed, replay_path=None):
    t0 = time.time()
    rng = random.Random(seed * 31 + 14)
    if replay_path:
        doc = json.load(open(replay_path if os.path.isabs(replay_path) else os.path.join(tlc.VERIF, replay_path)))
        hists = [doc['hist']]
        mc = None
    else:
        d = tlc.workdir('C14_clock')
        quick = tier == 'quick'
        consts = dict(Speeds={0, 1, 2, 3}, Steps={0, 1, 2}, Values={0, 1, 2, 3, 5, 8} if quick else {0, 1, 2, 3, 4, 5, 8, 13},
                      MaxNow=6 if quick else 8, MaxLen=7 if quick else 9, EmitEdges=True)
        tlc.write_mc(d, 'Clock', consts, view='View', constraints=['Bounded'], action_constraints=['Emit'],
                     invariants=['Faithful'],
                     props=['Monotonic', 'StandsStill', 'ExactSet', 'RejectedSet', 'Advances'])
        mc = tlc.run(d, timeout=1800)
        if mc['error'] or mc['violated']:
            print('MACHINERY-FAILURE property=C14: the Clock.tla design check failed:\n' + (mc['error'] or mc['out'][-1500:]))
            return 2
        apa = apalache_inductive()
        if not all(r['ok'] for r in apa):
            print('MACHINERY-FAILURE property=C14: the inductive invariant of ClockInd.tla was not discharged by Apalache:\n'
                  + json.dumps([r for r in apa if not r['ok']])[:1500])
            return 2
        hists = [(j['hist'] if isinstance(j['hist'], list) else []) for j in mc['json'] if 'hist' in j]
        nedges = len(hists)
        for _ in range(300 if quick else 5000):
            hists.append(random_hist(rng, rng.randint(5, 40)))
    traces = []
    machinery = None
    for i, h in enumerate(hists):
        lines = drive(h)
        for ln in lines:
            for k in ('before', 'after'):
                if not intlike(ln[k]):
                    machinery = 'non-integral clock value %r in trace %d' % (ln[k], i)
                ln[k] = int(ln[k])
        traces.append({'id': i + 1, 'lines': lines, 'hist': h})
    if machinery:
        print('MACHINERY-FAILURE property=C14: ' + machinery)
        return 2
    d2 = tlc.workdir('C14_clock_tr')
    path = os.path.join(d2, 'traces.json')
    json.dump([{'id': t['id'], 'lines': t['lines']} for t in traces if t['lines']], open(path, 'w'))
    tlc.write_mc(d2, 'ClockTrace', {}, spec='TSpec', invariants=['Report'])
    tr = tlc.run(d2, env={'TRACE_FILE': path}, timeout=1800)
    reports = {j['id']: j for j in tr['json'] if isinstance(j, dict) and 'id' in j}
    want = [t['id'] for t in traces if t['lines']]
    if tr['error'] or any(i not in reports for i in want):
        print('MACHINERY-FAILURE property=C14: trace check failed or incomplete\n' + str(tr['error']))
        return 2
    nviol = 0
    out = []
    for t in traces:
        if not t['lines']:
            continue
        bad = reports[t['id']]['bad']
        if isinstance(bad, dict):
            bad = []
        if bad:
            nviol += 1
            if nviol <= 5:
                pth = evd.write_replay('C14', nviol, {'property': 'C14', 'hist': t['hist'], 'lines': t['lines'], 'failing': bad})
                out.append('VIOLATION property=C14 replay=%s' % pth)
                out.append('  clauses=%s' % sorted({b[1] for b in bad}))
    if replay_path:
        for ln in out:
            print(ln)
        return 1 if nviol else 0
    # interpreter stage: SynchronizedClock
    import interp_check
    import gen_charts as gc
    stage = dict(name='sync', charts=gc.family_f3(rng, 8 if quick else 60, nmin=3, nmax=5, tmin=3, tmax=5, nev=2, max_oracle=1)
                 + gc.family_terminating(rng, 4 if quick else 12),
                 consts=dict(MaxQ=1, MaxClk=3, Delays={0}, Advances={1, 2}, MaxLevel=5 if quick else 6),
                 variants=[dict(variant='api', monitor=True), dict(variant='api', monitor=True, moving=True)],
                 random=dict(count=100 if quick else 1000, length=16, advances=(1, 2, 5),
                             family=lambda r, kk: gc.family_f3(r, kk, nmin=4, nmax=8)))
    try:
        sout, viol, allcharts, samples, mc2 = interp_check.run_stage('C14', tier, seed, stage, rng)
        sout.pop('cross_samples', None)
    except interp_check.Machinery as e:
        print('MACHINERY-FAILURE property=C14: %s' % e)
        return 2
    for (t, mine, r) in viol:
        nviol += 1
        if nviol <= 5:
            pth = evd.write_replay('C14', nviol, {'property': 'C14', 'chart': allcharts[t['ci'] - 1], 'hist': t['hist'],
                                                  'kw': t['kw'], 'failing': mine, 'lines': t['lines']})
            out.append('VIOLATION property=C14 replay=%s' % pth)
    for ln in out:
        print(ln)
    cov = dict(states=mc['distinct'] + sout['mc_states'], transitions=mc['generated'] + sout['mc_transitions'],
               traces_validated_against_impl=len(traces) + sout['traces'],
               samples=[{'hist': traces[0]['hist'], 'lines': traces[0]['lines']},
                        {'hist': traces[-1]['hist'], 'lines': traces[-1]['lines']}],
               exhaustive=bool(mc['completed']), clock_edges_replayed=nedges,
               clock_random_traces=len(traces) - nedges, clock_consts={k: sorted(v) if isinstance(v, set) else v for k, v in consts.items()},
               clock_mc_cmd=mc['cmd'], clock_trace_cmd=tr['cmd'], sync_stage=sout,
               apalache_inductive=dict(obligations=len(apa), discharged=sum(1 for r in apa if r['ok']),
                                       cmds=[r['cmd'] for r in apa]),
               rule='Clock.tla explored exhaustively within clock_consts; every edge history and seeded random operation '
                    'sequences replayed on the real SimulatedClock under a scripted integral time source and evaluated by '
                    'TLC (ClockTrace.tla); SynchronizedClock through the interpreter engine (clause C14.sync)')
    evd.write_evidence('C14', tier, seed, cov, time.time() - t0, nviol,
                       assumptions=['integral speeds, increments and values only (TLC integers); real wall-clock behaviour is replaced by a scripted time source'])
    print('C14 %s: %d states, %d clock edges + %d random sequences replayed, %d violations, %.1fs' % (
        tier, cov['states'], nedges, len(traces) - nedges, nviol, time.time() - t0))
    return 1 if nviol else 0
