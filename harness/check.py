"""CLI: one check = one property = one command."""
import argparse
import os
import sys


def main():
    ap = argparse.ArgumentParser()
    ap.add_argument('prop')
    ap.add_argument('--tier', default=os.environ.get('VERIF_TIER', 'quick'), choices=['quick', 'thorough'])
    ap.add_argument('--seed', type=int, default=int(os.environ.get('VERIF_SEED', '1') or 1))
    ap.add_argument('--replay', default=None)
    a = ap.parse_args()
    if a.prop == 'selftest':
        import selftest
        return selftest.main()
    import interp_check
    if a.prop in interp_check.CONFIGS:
        return interp_check.main(a.prop, a.tier, a.seed, a.replay)
    if a.prop == 'C14':
        import clock_check
        return clock_check.main(a.prop, a.tier, a.seed, a.replay)
    if a.prop == 'C16':
        import model_edit
        return model_edit.main(a.prop, a.tier, a.seed, a.replay)
    if a.prop in ('C11', 'C12'):
        import yaml_check
        return yaml_check.main(a.prop, a.tier, a.seed, a.replay)
    if a.prop == 'C20':
        import runner_check
        return runner_check.main(a.prop, a.tier, a.seed, a.replay)
    if a.prop == 'C15':
        import system_check
        return system_check.main(a.prop, a.tier, a.seed, a.replay)
    if a.prop == 'C19':
        import bdd_check
        return bdd_check.main(a.prop, a.tier, a.seed, a.replay)
    print('unknown property', a.prop)
    return 2


if __name__ == '__main__':
    sys.exit(main())
