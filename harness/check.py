"""CLI: one check = one property = one command."""
import argparse
import os
import sys


def prune(prop):
    """Scratch hygiene: drop the bulky artefacts of this property's work directories (TLC state files, trace
    files, long outputs); small files (specs, cfg, head of the outputs) stay for inspection."""
    import shutil
    base = os.path.join(os.path.dirname(os.path.dirname(os.path.abspath(__file__))), '.work', os.environ.get('VERIF_WORK', ''))
    if not os.path.isdir(base):
        return
    for name in os.listdir(base):
        d = os.path.join(base, name)
        if not (os.path.isdir(d) and (name.startswith(prop + '_') or name.startswith('bdd_'))):
            continue
        for root, dirs, files in os.walk(d, topdown=True):
            for dn in list(dirs):
                if dn.startswith('meta_') or dn.startswith('out_'):
                    shutil.rmtree(os.path.join(root, dn), ignore_errors=True)
                    dirs.remove(dn)
            for fn in files:
                fp = os.path.join(root, fn)
                try:
                    if os.path.getsize(fp) > 262144:
                        if fn.endswith('.out'):
                            with open(fp, errors='replace') as f:
                                txt = f.read()
                            with open(fp, 'w') as f:
                                f.write(txt[:60000] + '\n...[pruned]...\n' + txt[-60000:])
                        else:
                            os.unlink(fp)
                except OSError:
                    pass


def main():
    rc = main2()
    try:
        if len(sys.argv) > 1 and sys.argv[1] not in ('selftest',) and '--replay' not in sys.argv:
            prune(sys.argv[1])
    except Exception:
        pass
    return rc


def main2():
    ap = argparse.ArgumentParser()
    ap.add_argument('prop')
    ap.add_argument('--tier', default=os.environ.get('VERIF_TIER', 'quick'), choices=['quick', 'thorough'])
    ap.add_argument('--seed', type=int, default=int(os.environ.get('VERIF_SEED', '1') or 1))
    ap.add_argument('--replay', default=None)
    a = ap.parse_args()
    if a.prop == 'selftest':
        import selftest
        return selftest.main()
    import interp_check
    if a.prop in interp_check.CONFIGS:
        return interp_check.main(a.prop, a.tier, a.seed, a.replay)
    if a.prop == 'C14':
        import clock_check
        return clock_check.main(a.prop, a.tier, a.seed, a.replay)
    if a.prop == 'C16':
        import model_edit
        return model_edit.main(a.prop, a.tier, a.seed, a.replay)
    if a.prop in ('C11', 'C12'):
        import yaml_check
        return yaml_check.main(a.prop, a.tier, a.seed, a.replay)
    if a.prop == 'C20':
        import runner_check
        return runner_check.main(a.prop, a.tier, a.seed, a.replay)
    if a.prop == 'C15':
        import system_check
        return system_check.main(a.prop, a.tier, a.seed, a.replay)
    if a.prop == 'C19':
        import bdd_check
        return bdd_check.main(a.prop, a.tier, a.seed, a.replay)
    print('unknown property', a.prop)
    return 2


if __name__ == '__main__':
    sys.exit(main())
