"""Probes, oracles and listeners injected into real statecharts (DESIGN.md 5.1 / 5.2).

All of them are instances of module-level classes so that an Interpreter holding them can be pickled
and deep-copied (C18).  Everything they observe is appended to one chronological log whose entries
have exactly the fields of Semantics!LogE: k, a, b, c, d, v, t.
"""


class Runaway(BaseException):
    """One public call produced more observations than any bounded step can (the code under test loops)."""


LOG_CAP = 4000


class Log(list):
    def append(self, e):
        if len(self) >= LOG_CAP:
            del self[200:]
            raise Runaway()
        list.append(self, e)


def loge(k, a=0, b=0, c=0, d=0, v=0, t=0):
    return {'k': k, 'a': a, 'b': b, 'c': c, 'd': d, 'v': v, 't': t}


def ev_id(event):
    """Event object -> (id, param).  Event names are 'e<id>'; the optional parameter is `v`."""
    if event is None:
        return 0, 0
    name = event.name
    try:
        i = int(name[1:]) if name[:1] == 'e' else -1
    except ValueError:
        i = -1
    return i, event.data.get('v', 0)


class Probes:
    """Callables handed to the statechart through initial_context."""

    def __init__(self, names=None):
        self.log = Log()
        self.gv = []          # oracle script of the current call: gv[tid-1]
        self.cfail = 0        # index of the failing condition occurrence (0 = none)
        self.cnt = 0          # condition occurrences so far in this call
        self.clock = None     # set by the driver, for tick()
        self.ids = {}         # state name -> id (for active())
        self.interp = None
        self.base = 0         # the clock's origin (runs that start at a large absolute time)

    # -- per-call script
    def arm(self, gv, cfail):
        self.gv = list(gv)
        self.cfail = cfail
        self.cnt = 0
        self.log = Log()

    # -- code probes: p('x'|'a'|'e', id, x, time[, event])
    def p(self, kind, ident, x, time, event=None, na=-1):
        # na: how many states of the chart active() reports as active at this very point
        if kind == 'a':
            e, par = ev_id(event)
            self.log.append(loge('acode', ident, e, par, na, x, time - self.base))
        else:
            self.log.append(loge('xcode' if kind == 'x' else 'ecode', ident, 0, 0, na, x, time - self.base))

    # -- guard oracle / guard tracer: g(tid, event, time[, value computed by sismic])
    def g(self, tid, event, time, val=None):
        v = bool(self.gv[tid - 1]) if val is None else bool(val)
        e, par = ev_id(event)
        self.log.append(loge('guard', tid, e, par, 0, 1 if v else 0, time - self.base))
        return v

    # -- contract oracle: c(kind, owner, idx, time[, __old__])
    def c(self, ck, owner, idx, time, old=0, nbox=0, aft=None, idl=None, act=None):
        if aft is not None:      # post-conditions and invariants: what after(1) / idle(1) answer here
            self.log.append(loge('ctime', owner, 1 if aft else 0, 1 if idl else 0, 0, 0, time - self.base))
        self.cnt += 1
        ok = self.cnt != self.cfail
        if old == 0:          # precondition: no __old__ in scope
            d = -1
        elif old is None:     # __old__ in scope but nothing remembered
            d = -1
        else:
            d = old.x
            # __old__ holds SHALLOW copies: the inner list of box is shared with the live context
            try:
                if len(old.box[0]) != nbox:
                    d = -2
                elif len(old.lst) != old.x:     # a top-level list mutated in place: frozen with its content
                    d = -4
            except Exception:
                d = -3
        self.log.append(loge('cond', ck, owner, idx, d, 1 if ok else 0, time - self.base))
        return ok

    def tick(self, d):
        if isinstance(self.clock, MovingClock):
            self.clock.add(d)
        else:
            self.clock.time += d

    # -- one text in two roles: the very same source string is the guard of transition `ta` and the action of
    #    transition `tb` (dg), or the precondition `idx` of `owner` and the entry code of state `s` (dc).  Which role
    #    is being played is read off the calling code object: an expression compiled for eval() has no POP_TOP.
    @staticmethod
    def _as_statement(depth=2):
        import dis
        import sys
        code = sys._getframe(depth).f_code
        return any(i.opname == 'POP_TOP' for i in dis.get_instructions(code))

    def dg(self, ta, tb, x, time, event=None, na=-1):
        if self._as_statement():
            return self.p('a', tb, x, time, event, na)
        return self.g(ta, event, time)

    def dc(self, owner, idx, s, x, time, na=-1):
        if self._as_statement():
            return self.p('e', s, x, time, None, na)
        return self.c(1, owner, idx, time)


class Listener:
    """A listener attached with Interpreter.attach: logs every documented meta-event."""

    def __init__(self, probes, interp_ref=None):
        self.probes = probes
        self.interp = None
        self.names = {}       # state name -> id
        self.sync = None      # a SynchronizedClock following the interpreter (C14)
        self.seen = []        # own copy of what this listener received (C10: per-listener sequences)
        self.share = True

    def __call__(self, meta):
        n = meta.name
        if self.sync is None and self.interp is not None:
            from sismic.clock import SynchronizedClock
            self.sync = SynchronizedClock(self.interp)
        t = self.sync.time - self.probes.base if self.sync is not None else 0
        ids = self.names
        if n == 'step started':
            e = loge('start', meta.time - self.probes.base, t=t)
        elif n == 'step ended':
            e = loge('end', t=t)
        elif n == 'event consumed':
            i, par = ev_id(meta.event)
            e = loge('consumed', i, par, t=t)
        elif n == 'event sent':
            i, par = ev_id(meta.event)
            e = loge('sent', i, meta.event.data.get('delay', 0), par, t=t)
        elif n == 'delayed event sent':
            return                      # deprecated since 1.4.0 and undocumented: not observed
        elif n == 'state exited':
            e = loge('xmeta', ids.get(meta.state, -1), t=t)
        elif n == 'state entered':
            e = loge('emeta', ids.get(meta.state, -1), t=t)
        elif n == 'transition processed':
            i, _ = ev_id(meta.event)
            e = loge('tmeta', ids.get(meta.source, -1),
                     0 if meta.target is None else ids.get(meta.target, -1), i, t=t)
        elif n[:1] == 'm':
            try:
                e = loge('user', int(n[1:]), t=t)
            except ValueError:
                e = loge('user', -1, t=t)
        else:
            e = loge('user', -1, t=t)
        self.seen.append(e)
        if self.share:
            self.probes.log.append(e)


class Inbox:
    """A callable bound with Interpreter.bind: records the external events it is handed (C15)."""

    def __init__(self):
        self.items = []

    def __call__(self, event):
        i, par = ev_id(event)
        self.items.append({'ev': i, 'par': par, 'dl': event.data.get('delay', 0),
                           'cls': type(event).__name__})


META_NAMES = ['step started', 'step ended', 'event consumed', 'event sent', 'state exited',
              'state entered', 'transition processed']


from sismic.clock import Clock as _Clock


class MovingClock(_Clock):
    """A clock that moves on while a step is being executed: armed before a call, its FIRST reading is exact and every
    further reading during that call is one unit later (outside calls it stands still).  An interpreter that
    samples the clock once per step (the documented behaviour) never notices; one that reads it again does."""

    def __init__(self, start=0):
        self.value = start
        self.armed = False
        self.reads = 0

    @property
    def time(self):
        if self.armed:
            self.reads += 1
            return self.value + (1 if self.reads > 1 else 0)
        return self.value

    @time.setter
    def time(self, v):
        self.value = v

    def add(self, d):
        self.value += d

    def arm(self):
        self.armed, self.reads = True, 0

    def disarm(self):
        self.armed = False


# A controllable wall clock: sismic.clock.clock.time is replaced by fake_wall in runs whose SimulatedClock is start()ed
# (real-time mode), so elapsed real time is exact and reproducible.  Each Run owns its wall value and publishes it here
# before every call into the code under test.
WALL = [1000]


def fake_wall():
    return WALL[0]


class Device:
    """An object of the environment (a device handle): it can be copied, but neither deep-copied nor pickled."""

    def __init__(self):
        import threading
        self.lock = threading.Lock()
        self.lines = []


class Mon:
    """State of a property statechart that turns final at the mfail-th meta-event of a call."""

    def __init__(self):
        self.mfail = 0
        self.count = 0
        self.times = []
        self.base = 0

    def arm(self, mfail):
        self.mfail = mfail
        self.count = 0
        self.times = []

    def rec(self, event, time):
        self.count += 1
        self.times.append(time - self.base)

    def fire(self):
        return self.mfail != 0 and self.count == self.mfail
