"""Regenerates seeded/README.md from seeded/*/meta.json."""
import glob
import json
import os

VERIF = os.path.dirname(os.path.dirname(os.path.abspath(__file__)))
rows = []
for f in sorted(glob.glob(os.path.join(VERIF, 'seeded', '*', 'meta.json'))):
    m = json.load(open(f))
    needs = ' '.join(m.get('needs', '').split())[:220]
    ck = m.get('checks', {})
    res = ', '.join('%s: %s' % (k, 'CAUGHT' if v['exit'] == 1 else 'missed' if v['exit'] == 0 else 'machinery') for k, v in ck.items())
    viol = next((v['violation_lines'][0] for v in ck.values() if v.get('violation_lines')), '')
    rows.append((m['id'], m['property'], res, 'rebased' if m.get('rebased') else '', needs))
with open(os.path.join(VERIF, 'seeded', 'README.md'), 'w') as f:
    f.write('# Seeded changes\n\nEach directory holds `patch.diff` (a change to sismic that breaks the property while the pinned\n'
            'test-suite still passes), `demo.py` (exits 0 without / 1 with the change), `notes.txt` (the author\'s\n'
            'description) and `meta.json` (confirmation in a scratch worktree, and the outcome of the last run of the check).\n'
            'All were written by independent sub-agents that saw only the property text. Regenerate with\n'
            '`python harness/seeded_table.py`; re-run one with `python harness/seedtest.py seeded/<id> <id> <property>`.\n\n')
    f.write('| id | property | last run | note | what it needs to manifest (author\'s words, truncated) |\n|---|---|---|---|---|\n')
    for r in rows:
        f.write('| %s | %s | %s | %s | %s |\n' % r)
print(len(rows), 'seeded changes;', sum(1 for r in rows if 'CAUGHT' in r[2]), 'caught at their last run')
