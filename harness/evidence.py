"""Evidence files (schema /root/.vp/EVIDENCE.schema.json) and known findings."""
import json
import os

VERIF = os.path.dirname(os.path.dirname(os.path.abspath(__file__)))


def load_findings():
    p = os.path.join(VERIF, 'known_findings.json')
    if not os.path.exists(p):
        return []
    with open(p) as f:
        return json.load(f).get('findings', [])


def open_findings(prop):
    return [f for f in load_findings() if f.get('property') == prop and f.get('status') == 'open']


def write_evidence(prop, tier, seed, coverage, wall_s, violations, assumptions=(), level='model_checking'):
    sub = os.environ.get('VERIF_WORK')      # seedtest runs do not overwrite the committed evidence
    edir = os.path.join(VERIF, '.work', sub, 'evidence') if sub else os.path.join(VERIF, 'evidence')
    os.makedirs(edir, exist_ok=True)
    doc = {'property_id': prop, 'tier': tier, 'seed': int(seed), 'level': level,
           'coverage': coverage, 'assumptions': list(assumptions), 'wall_s': round(float(wall_s), 2),
           'violations': int(violations)}
    path = os.path.join(edir, prop + '.json')
    with open(path, 'w') as f:
        json.dump(doc, f, indent=1, sort_keys=True, default=str)
    return path


def write_replay(prop, n, doc):
    sub = os.environ.get('VERIF_WORK')
    rdir = os.path.join(VERIF, '.work', sub, 'replays') if sub else os.path.join(VERIF, 'replays')
    os.makedirs(rdir, exist_ok=True)
    path = os.path.join(rdir, '%s-%d.json' % (prop, n))
    with open(path, 'w') as f:
        json.dump(doc, f, indent=1, default=str)
    return os.path.relpath(path, VERIF)
