"""C16: Model.tla / ModelMC.tla (design + edges) -> replay on a real Statechart -> ModelTrace.tla."""
import json
import os
import random
import time

from sismic.model import (Statechart, BasicState, CompoundState, OrthogonalState, FinalState,
                          ShallowHistoryState, DeepHistoryState, Transition)
from sismic.exceptions import StatechartError

import gen_charts as gc
import tlc
import driver
import evidence as evd

KCLS = {'basic': BasicState, 'compound': CompoundState, 'orthogonal': OrthogonalState, 'final': FinalState,
        'shallow': ShallowHistoryState, 'deep': DeepHistoryState}
KIND = {v: k for k, v in KCLS.items()}


def nm(i, M):
    return 'zz-unknown' if i == M + 1 else 'n%d' % i


def idof(name):
    return int(name[1:])


def ev_of(e):
    return None if e == 0 else 'e%d' % (e % 10 if e > 10 else e)


def tr_of(src, tgt, e, M):
    """Event ids above 10 stand for the same event with priority 1: two transitions may differ in priority only."""
    return Transition(nm(src, M), nm(tgt, M) if tgt else None, event=ev_of(e), priority=1 if e > 10 else 0)


def build(c, M):
    sc = Statechart('edit')
    if c is None:
        return sc
    n = c['n']
    pending = list(range(1, n + 1))
    added = set()
    while pending:
        s = [x for x in pending if c['parent'][x - 1] == 0 or c['parent'][x - 1] in added][0]
        k = c['kind'][s - 1]
        st = KCLS[k](nm(s, M))
        sc.add_state(st, nm(c['parent'][s - 1], M) if c['parent'][s - 1] else None)
        added.add(s)
        pending.remove(s)
    for s in range(1, n + 1):
        st = sc.state_for(nm(s, M))
        if c['initial'][s - 1]:
            st.initial = nm(c['initial'][s - 1], M)
        if c['memory'][s - 1]:
            st.memory = nm(c['memory'][s - 1], M)
    for t in c['trans']:
        sc.add_transition(tr_of(t['src'], t['tgt'], t['ev'], M))
    return sc


def struct_of(sc, M, prio_in_ev=False):
    names = sorted(idof(x) for x in sc.states)
    kind, parent, children, initial, memory = [''] * M, [-1] * M, [[] for _ in range(M)], [0] * M, [0] * M
    roots = []
    for i in names:
        st = sc.state_for(nm(i, M))
        kind[i - 1] = KIND[type(st)]
        p = sc.parent_for(nm(i, M))
        parent[i - 1] = idof(p) if p else 0
        if not p:
            roots.append(i)
        children[i - 1] = [idof(x) for x in sc.children_for(nm(i, M))]
        ini = getattr(st, 'initial', None)
        mem = getattr(st, 'memory', None)
        initial[i - 1] = (idof(ini) if ini.startswith('n') and ini[1:].isdigit() else M + 1) if ini else 0
        memory[i - 1] = (idof(mem) if mem.startswith('n') and mem[1:].isdigit() else M + 1) if mem else 0
    # roots in the order of the private children list of None (declaration order)
    roots = [idof(x) for x in sc._children[None]]
    trans = [{'src': idof(t.source), 'tgt': idof(t.target) if t.target else 0,
              'ev': (int(t.event[1:]) if t.event else 0)
                    + (10 if prio_in_ev and t.event and t.priority == 1 else 0)} for t in sc.transitions]
    return {'names': names, 'kind': kind, 'parent': parent, 'children': children, 'roots': roots,
            'initial': initial, 'memory': memory, 'trans': trans}


def find_transition(sc, tr, M):
    """A handle on a registered transition equal to tr, else a fresh (unregistered) object."""
    want = tr_of(tr['src'], tr['tgt'], tr['ev'], M)
    for t in sc.transitions:
        if t == want:
            return t
    return want


def apply_op(sc, h, M):
    op, a, b, c = h['op'], h['a'], h['b'], h['c']
    if op == 'add_state':
        sc.add_state(KCLS[b](nm(a, M)), nm(c, M) if c else None)
    elif op == 'remove_state':
        sc.remove_state(nm(a, M))
    elif op == 'rename_state':
        sc.rename_state(nm(a, M), nm(b, M))
    elif op == 'move_state':
        sc.move_state(nm(a, M), nm(b, M))
    elif op == 'add_transition':
        sc.add_transition(tr_of(a['src'], a['tgt'], a['ev'], M))
    elif op == 'remove_transition':
        sc.remove_transition(find_transition(sc, a, M))
    elif op == 'rotate_transition':
        kw = {}
        if b != -1:
            kw['new_source'] = nm(b, M)
        if c != -1:
            kw['new_target'] = nm(c, M) if c else None
        sc.rotate_transition(find_transition(sc, a, M), **kw)
    elif op == 'set_initial':
        sc.state_for(nm(a, M)).initial = nm(b, M)
    elif op == 'set_memory':
        sc.state_for(nm(a, M)).memory = nm(b, M)
    else:
        raise RuntimeError(op)


def run_session(c, hist, M):
    sc = build(c, M)
    init = struct_of(sc, M, True)
    lines = []
    for h in hist:
        res = 'ok'
        try:
            with driver.watchdog():
                apply_op(sc, h, M)
        except StatechartError:
            res = 'StatechartError'
        except ValueError:
            res = 'ValueError'
        except driver.Hang:
            res = 'Hang'
        except Exception as e:
            res = type(e).__name__
        try:
            with driver.watchdog():
                valid = bool(sc.validate())
        except (StatechartError, driver.Hang):
            valid = False
        if res == 'Hang':       # the structure may be cyclic: stop here, with the structure before the call
            lines.append({'op': h['op'], 'a': h['a'], 'b': h['b'], 'c': h['c'], 'res': res,
                          'post': lines[-1]['post'] if lines else init, 'valid': False})
            break
        lines.append({'op': h['op'], 'a': h['a'], 'b': h['b'], 'c': h['c'], 'res': res,
                      'post': struct_of(sc, M, True), 'valid': valid})
    return init, lines


def random_session(rng, M, n, T):
    """Random editing session (arguments drawn from the current structure T, tracked optimistically)."""
    hist = []
    for _ in range(n):
        names = list(T) or [M + 1]
        unk = M + 1
        fresh = min([i for i in range(1, M + 1) if i not in T] or [unk])
        r = rng.random()
        pick = lambda extra=(): rng.choice(names + [unk] + list(extra))
        if r < 0.22 and fresh != unk:
            p = pick([0])
            hist.append({'op': 'add_state', 'a': fresh if (rng.random() < 0.9 or names[0] == unk) else names[0],
                         'b': rng.choice(sorted(KCLS)), 'c': p})
            T.add(fresh)
        elif r < 0.32:
            x = pick()
            hist.append({'op': 'remove_state', 'a': x, 'b': 0, 'c': 0})
        elif r < 0.45 and fresh != unk:
            hist.append({'op': 'rename_state', 'a': pick(), 'b': rng.choice([fresh] + [x for x in names[:1] if x != unk]), 'c': 0})
        elif r < 0.6:
            hist.append({'op': 'move_state', 'a': pick(), 'b': pick(), 'c': 0})
        elif r < 0.75:
            hist.append({'op': 'add_transition', 'a': {'src': pick(), 'tgt': pick([0]), 'ev': rng.choice([0, 1, 1, 11])}, 'b': 0, 'c': 0})
        elif r < 0.82:
            hist.append({'op': 'remove_transition', 'a': {'src': pick(), 'tgt': pick([0]), 'ev': rng.choice([0, 1, 1, 11])}, 'b': 0, 'c': 0})
        else:
            hist.append({'op': 'rotate_transition', 'a': {'src': pick(), 'tgt': pick([0]), 'ev': rng.choice([0, 1, 11])},
                         'b': pick([-1]), 'c': pick([-1, 0])})
    return hist


def edit_charts(rng, M, count):
    """Valid start structures: skeletons with <= M-1 states and a few transitions (two events 0/1)."""
    pool = [c for c in gc.family_f1(M - 1)]
    rng.shuffle(pool)
    out = []
    for c in pool[:count]:
        c = json.loads(json.dumps(c))
        c['trans'] = rng.sample(c['trans'], min(rng.randint(0, 3), len(c['trans'])))
        for i, t in enumerate(c['trans']):
            t['ev'] = i % 2
        # drop exact duplicates
        seen, tr = set(), []
        for t in c['trans']:
            k = (t['src'], t['tgt'], t['ev'])
            if k not in seen:
                seen.add(k)
                tr.append(t)
        # sometimes a transition that differs from another one in its priority only (event id + 10)
        ev1 = [t for t in tr if t['ev'] == 1]
        if ev1 and rng.random() < 0.5:
            tr.insert(rng.randrange(len(tr) + 1), dict(ev1[0], ev=11))
        c['trans'] = tr
        out.append(c)
    return out


ALLOPS = {'add_state', 'remove_state', 'rename_state', 'move_state', 'add_transition', 'remove_transition',
          'rotate_transition', 'set_initial', 'set_memory'}


def main(prop, tier, seed, replay_path=None):
    t0 = time.time()
    rng = random.Random(seed * 101 + 16)
    quick = tier == 'quick'
    M = 5
    if replay_path:
        doc = json.load(open(replay_path if os.path.isabs(replay_path) else os.path.join(tlc.VERIF, replay_path)))
        sessions = [(doc['chart'], doc['hist'])]
        M = doc['M']
        mc = dict(distinct=1, generated=1, completed=True, cmd='')
        nedges = 0
    else:
        charts = edit_charts(rng, M, 40 if quick else 200)
        d = tlc.workdir('C16_model')
        with open(os.path.join(d, 'ChartsData.tla'), 'w') as f:
            f.write(gc.tla_charts_module('ChartsData', charts))
        consts = dict(M=M, MaxLen=1 if quick else 1, MaxTrans=3, EmitEdges=True, Ops=ALLOPS)
        tlc.write_mc(d, 'ModelMC', consts, view='View', constraints=['Bounded'], action_constraints=['Emit'],
                     invariants=['InvSound'], props=['FailedUnchanged'])
        mc = tlc.run(d, timeout=3000)
        if mc['error'] or mc['violated']:
            print('MACHINERY-FAILURE property=C16: design check of Model.tla failed\n' + (mc['error'] or mc['out'][-2000:]))
            return 2
        sessions = []
        for j in mc['json']:
            if 'hist' in j:
                h = j['hist'] if isinstance(j['hist'], list) else []
                sessions.append((charts[j['ci'] - 1] if j['ci'] else None, h))
        # second exhaustive stage: remove / re-add sequences (depth 2) on deep structures
        deepc = [c for c in charts if any(gc.depth(c, x) >= 3 for x in range(1, c['n'] + 1))][:8 if quick else 30]
        if deepc:
            dB = tlc.workdir('C16_model_readd')
            with open(os.path.join(dB, 'ChartsData.tla'), 'w') as f:
                f.write(gc.tla_charts_module('ChartsData', deepc))
            tlc.write_mc(dB, 'ModelMC', dict(consts, MaxLen=2, Ops={'add_state', 'remove_state'}), view='View',
                         constraints=['Bounded'], action_constraints=['Emit'], invariants=['InvSound'],
                         props=['FailedUnchanged'])
            mcB = tlc.run(dB, timeout=3000)
            if mcB['error'] or mcB['violated']:
                print('MACHINERY-FAILURE property=C16: design check (re-add stage) failed\n' + (mcB['error'] or mcB['out'][-2000:]))
                return 2
            for j in mcB['json']:
                if 'hist' in j:
                    h = j['hist'] if isinstance(j['hist'], list) else []
                    if len(h) == 2:
                        sessions.append((deepc[j['ci'] - 1] if j['ci'] else None, h))
            mc['distinct'] += mcB['distinct']
            mc['generated'] += mcB['generated']
        # rename / move followed by remove / rename / move (depth 2): a structure that was renamed or moved is edited again
        small = [c for c in charts if c['n'] <= 4][:6 if quick else 14]
        if small:
            dD = tlc.workdir('C16_model_again')
            with open(os.path.join(dD, 'ChartsData.tla'), 'w') as f:
                f.write(gc.tla_charts_module('ChartsData', small))
            tlc.write_mc(dD, 'ModelMC', dict(consts, MaxLen=2, Ops={'rename_state', 'remove_state', 'move_state'}), view='View',
                         constraints=['Bounded'], action_constraints=['Emit'], invariants=['InvSound'],
                         props=['FailedUnchanged'])
            mcD = tlc.run(dD, timeout=3000)
            if mcD['error'] or mcD['violated']:
                print('MACHINERY-FAILURE property=C16: design check (edit-again stage) failed\n' + (mcD['error'] or mcD['out'][-2000:]))
                return 2
            for j in mcD['json']:
                if 'hist' in j:
                    h = j['hist'] if isinstance(j['hist'], list) else []
                    if len(h) == 2:
                        sessions.append((small[j['ci'] - 1] if j['ci'] else None, h))
            mc['distinct'] += mcD['distinct']
            mc['generated'] += mcD['generated']
        # third exhaustive stage: every sequence of three move_state calls on 4-state structures
        pool5 = [c for c in gc.family_f1(5) if c['n'] == 5 and all(k in ('compound', 'basic') for k in c['kind'])
                 and c['parent'].count(1) >= 3]
        rng.shuffle(pool5)
        mvc = []
        for c in pool5[:3 if quick else 20]:
            c = json.loads(json.dumps(c))
            c['trans'] = []
            mvc.append(c)
        if mvc:
            dC = tlc.workdir('C16_model_moves')
            with open(os.path.join(dC, 'ChartsData.tla'), 'w') as f:
                f.write(gc.tla_charts_module('ChartsData', mvc))
            tlc.write_mc(dC, 'ModelMC', dict(consts, MaxLen=3, Ops={'move_state'}), view='View',
                         constraints=['Bounded'], action_constraints=['Emit'], invariants=['InvSound'],
                         props=['FailedUnchanged'])
            mcC = tlc.run(dC, timeout=3000)
            if mcC['error'] or mcC['violated']:
                print('MACHINERY-FAILURE property=C16: design check (moves stage) failed\n' + (mcC['error'] or mcC['out'][-2000:]))
                return 2
            for j in mcC['json']:
                if 'hist' in j:
                    h = j['hist'] if isinstance(j['hist'], list) else []
                    if len(h) == 3:
                        sessions.append((mvc[j['ci'] - 1] if j['ci'] else None, h))
            mc['distinct'] += mcC['distinct']
            mc['generated'] += mcC['generated']
        nedges = len(sessions)
        deep = None
        if not quick:   # deeper design check without emission
            d3 = tlc.workdir('C16_model_deep')
            with open(os.path.join(d3, 'ChartsData.tla'), 'w') as f:
                f.write(gc.tla_charts_module('ChartsData', charts[:25]))
            tlc.write_mc(d3, 'ModelMC', dict(consts, M=4, MaxLen=2, EmitEdges=False), view='View', constraints=['Bounded'],
                         action_constraints=['Emit'], invariants=['InvSound'], props=['FailedUnchanged'])
            deep = tlc.run(d3, timeout=3000)
            if deep['error'] or deep['violated']:
                print('MACHINERY-FAILURE property=C16: deep design check failed\n' + (deep['error'] or deep['out'][-2000:]))
                return 2
        for i in range(400 if quick else 5000):
            c = rng.choice(charts + [None])
            T = set(range(1, c['n'] + 1)) if c else set()
            sessions.append((c, random_session(rng, M, rng.randint(4, 14), T)))
    traces = []
    for i, (c, h) in enumerate(sessions):
        init, lines = run_session(c, h, M)
        traces.append({'id': i + 1, 'init': init, 'lines': lines, 'chart': c, 'hist': h})
    # the recorded sessions are decided by TLC in batches (one huge trace file makes TLC's JSON values exceed its heap)
    tolook = [{'id': t['id'], 'init': t['init'], 'lines': t['lines']} for t in traces if t['lines']]
    reports, tr = {}, {'error': None, 'cmd': '', 'json': []}
    for bi in range(0, max(1, len(tolook)), 30000):
        d2 = tlc.workdir('C16_model_tr' if bi == 0 else 'C16_model_tr%d' % (bi // 30000))
        path = os.path.join(d2, 'traces.json')
        json.dump(tolook[bi:bi + 30000], open(path, 'w'))
        tlc.write_mc(d2, 'ModelTrace', {'M': M}, spec='TSpec', invariants=['Report'])
        tr = tlc.run(d2, env={'TRACE_FILE': path}, timeout=3000)
        reports.update({j['id']: j for j in tr['json'] if isinstance(j, dict) and 'id' in j})
        if tr['error']:
            break
    want = [t['id'] for t in traces if t['lines']]
    if tr['error'] or any(i not in reports for i in want):
        print('MACHINERY-FAILURE property=C16: trace check failed or incomplete\n' + str(tr['error']))
        return 2
    nviol, out, seen = 0, [], set()
    for t in traces:
        if not t['lines']:
            continue
        bad = reports[t['id']]['bad']
        bad = [] if isinstance(bad, dict) else bad
        if bad:
            key = json.dumps([t['hist'][b[0] - 1] for b in bad][:1]) + str(sorted({b[1] for b in bad}))
            nviol += 1
            if nviol <= 5:
                pth = evd.write_replay('C16', nviol, {'property': 'C16', 'M': M, 'chart': t['chart'], 'hist': t['hist'],
                                                      'failing': bad, 'lines': t['lines'], 'init': t['init']})
                out.append('VIOLATION property=C16 replay=%s' % pth)
                out.append('  failing (line, clause)=%s ops=%s' % (bad[:4], [t['hist'][b[0] - 1] for b in bad][:2]))
    for ln in out:
        print(ln)
    if replay_path:
        return 1 if nviol else 0
    cov = dict(states=mc['distinct'], transitions=mc['generated'], traces_validated_against_impl=len(traces),
               samples=[{'chart': traces[0]['chart'], 'hist': traces[0]['hist'], 'lines': traces[0]['lines'][:2]},
                        {'chart': traces[-1]['chart'], 'hist': traces[-1]['hist'], 'lines': traces[-1]['lines'][:3]}],
               exhaustive=bool(mc['completed']), edges_replayed=nedges, random_sessions=len(traces) - nedges,
               name_universe=M, start_charts=len(charts), mc_cmd=mc['cmd'], trace_cmd=tr['cmd'],
               deep_design_check=(dict(states=deep['distinct'], transitions=deep['generated']) if deep else None),
               rule='Model.tla: every editing call with valid and invalid arguments from every start structure (depth 1 '
                    'exhaustive, edges replayed on a real Statechart) plus seeded random sessions of 4-14 calls; TLC '
                    '(ModelTrace.tla) checks soundness, failed=>unchanged, exact documented effect, validate() agreement')
    evd.write_evidence('C16', tier, seed, cov, time.time() - t0, nviol,
                       assumptions=['transitions are identified by (source, target, event); added states carry no initial/memory',
                                    'children compared as sets, transitions as bags'])
    print('C16 %s: %d states, %d edges + %d random sessions replayed, %d violations, %.1fs' % (
        tier, cov['states'], nedges, len(traces) - nedges, nviol, time.time() - t0))
    return 1 if nviol else 0
