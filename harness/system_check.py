"""C15: System.tla (bound interpreters / callables) -> replay on real interpreters -> SystemTrace.tla."""
import json
import multiprocessing
import os
import random
import time

import gen_charts as gc
import tlc
import evidence as evd
import driver
from probes import Inbox, ev_id

N, K = 2, 2


def family_sys(rng, count):
    """Tiny charts that send internal events (with delays / parameters) and notify."""
    out = []
    while len(out) < count:
        c = gc.random_tree(rng, rng.randint(2, 4), allow_history=False, allow_final=rng.random() < 0.2, p_orth=0.3)
        n = c['n']
        srcs = [s for s in range(1, n + 1) if c['kind'][s - 1] in gc.TRANS_KINDS]
        trans = []
        for _ in range(rng.randint(2, 4)):
            s = rng.choice(srcs)
            tg = rng.choice([0, 0] + [t for t in range(1, n + 1) if gc.wf_transition(c, s, t)])
            ev = rng.choice([1, 2])
            snd = []
            for _ in range(rng.choice([0, 1, 1, 2])):
                snd.append((rng.choice([1, 2, 3]), rng.choice([0, 0, 1]), rng.choice([0, 7])))
            if snd and rng.random() < 0.3:
                snd.append(snd[-1])         # the same event (name, parameters, delay) twice in a row: two events
            act = gc.desc(incx=0, sends=snd, nots=[1] if rng.random() < 0.2 else [])
            if not any(u['src'] == s and u['ev'] == ev for u in trans):
                trans.append(gc.mk_trans(s, tg, ev, 0, 'none', 0, act))
        c['trans'] = trans
        for s in range(1, n + 1):
            if rng.random() < 0.25:
                c['entry'][s - 1] = gc.desc(sends=[(rng.choice([1, 2]), 0, 0)])
        for s in range(1, n + 1):
            if rng.random() < 0.25:
                c['exit'][s - 1] = gc.desc(sends=[(rng.choice([2, 3]), 0, 0)])
        c['events'] = [1, 2, 3]
        if len(out) % 2 == 1:
            # a terminating chart: compound root with a final child, reached on event 2;
            # the final state and the root send events when they are exited
            r = gc.root(c)
            if c['kind'][r - 1] == 'compound' and n < 5:
                c = json.loads(json.dumps(c))
                c['n'] = n + 1
                c['kind'].append('final')
                c['parent'].append(r)
                c['initial'].append(0)
                c['memory'].append(0)
                for key in ('entry', 'exit'):
                    c[key].append(dict(gc.D0))
                for key in ('spre', 'spost', 'sinv'):
                    c[key].append(0)
                f = n + 1
                c['exit'][f - 1] = gc.desc(sends=[(3, 0, 7)])
                c['exit'][r - 1] = gc.desc(sends=[(1, rng.choice([0, 1]), 0)])
                srcs2 = [s for s in range(1, n + 1) if c['kind'][s - 1] in gc.TRANS_KINDS and s != r]
                if srcs2:
                    c['trans'] = [t for t in c['trans'] if not (t['ev'] == 2)]
                    c['trans'].append(gc.mk_trans(srcs2[0], f, 2, 0, 'none', 0, gc.desc(sends=[(2, 0, 0)])))
        if gc.wf(c) and any(t['act']['sends'] for t in c['trans']):
            out.append(c)
    return out


def pairs_module(charts, pairs):
    base = gc.tla_charts_module('PairsData', charts)
    return base.replace('====', 'Pairs == <<' + ', '.join('<<%d, %d>>' % p for p in pairs) + '>>\n====')


def run_system(args):
    charts, pair, hist, tid, chk_all = args
    try:
        runs = [driver.Run(charts[pair[i] - 1], variant='api', seed=i) for i in range(N)]
        deliv = []

        class Box:
            def __init__(self, to):
                self.to, self.items = to, []

            def __call__(self, e):
                eid, par = ev_id(e)
                deliv.append({'to': self.to, 'ev': eid, 'par': par, 'dl': e.data.get('delay', 0),
                              'cls': type(e).__name__})
        inbox = [Box(N + 1 + k) for k in range(K)]

        class Relay:
            """A bound method as the bound callable; its owner is referenced by the binding only."""

            def __init__(self, box):
                self.box = box

            def put(self, e):
                self.box(e)

        class Detacher(Box):
            """On every event it receives, detaches the listener bound right after it on the same sender."""

            def __init__(self, sender):
                super().__init__(N + K + 1)
                self.sender = sender

            def __call__(self, e):
                super().__call__(e)
                hs = handles[self.sender]
                pos = [k for k, h_ in enumerate(hs) if getattr(h_, '_callable', None) is self]
                if pos and pos[0] + 1 < len(hs):
                    runs[self.sender].interp.detach(hs.pop(pos[0] + 1))
        harness = {'on': False}
        for i, r in enumerate(runs):
            real = r.interp.queue

            def spy(*a, _i=i, _real=real, **kw):
                if not harness['on']:
                    for e in a:
                        eid, par = ev_id(e)
                        deliv.append({'to': _i + 1, 'ev': eid, 'par': par, 'dl': e.data.get('delay', 0),
                                      'cls': type(e).__name__})
                return _real(*a, **kw)
            r.interp.queue = spy
        handles = [[] for _ in range(N)]
        lines = []
        for h in hist:
            i = h['i'] - 1
            r = runs[i]
            del deliv[:]
            for b in inbox:
                del b.items[:]
            op = h['op']
            if op == 'detach' and not (1 <= h['a'] <= len(handles[i])):
                continue        # nothing to detach at that index (a detaching callable may have removed it)
            if op in ('bind', 'detach'):
                o = r.call({'op': 'adv', 'd': 0})
                o['op'] = op
                if op == 'bind':
                    t = h['a']
                    target = runs[t - 1].interp if t <= N else (inbox[t - N - 1] if t <= N + K else Detacher(i))
                    if N < t <= N + K and (tid + len(handles[i])) % 2 == 0:
                        target = Relay(target).put
                    handles[i].append(r.interp.bind(target))
                else:
                    r.interp.detach(handles[i].pop(h['a'] - 1))
                o['a'] = h['a']
            else:
                harness['on'] = (op == 'queue')      # only the harness's own queue() call is not a delivery
                try:
                    o = r.call({'op': op, 'ev': h['a'], 'par': h['b'], 'dl': h['c'], 'd': h['a'], 'gv': h.get('gv', [])}
                               if op != 'exec' else {'op': 'exec', 'gv': h.get('gv', [])})
                finally:
                    harness['on'] = False
                o['a'] = 0
            # deliveries in real order: interpreters through the spy, callables through their inbox
            # (the listeners are called event by event, so merge by arrival: both record in call order)
            o['deliv'] = [{'to': d['to'], 'ev': d['ev'], 'par': d['par'], 'dl': d['dl']} for d in deliv]
            o['classes'] = sorted({d['cls'] for d in deliv})
            o['who'] = i + 1
            lines.append(o)
            if o['exc'] in driver.FATAL:
                break
        return {'id': tid, 'lines': lines, 'hist': hist, 'pair': pair, 'error': ''}
    except Exception as e:
        import traceback
        return {'id': tid, 'lines': [], 'hist': hist, 'pair': pair,
                'error': '%s: %s %s' % (type(e).__name__, e, traceback.format_exc()[-700:])}


def main(prop, tier, seed, replay_path=None):
    t0 = time.time()
    quick = tier == 'quick'
    rng = random.Random(seed * 71 + 15)
    charts = family_sys(rng, 6 if quick else 20)
    pairs = [(rng.randint(1, len(charts)), rng.randint(1, len(charts))) for _ in range(3 if quick else 8)]
    if replay_path:
        doc = json.load(open(replay_path if os.path.isabs(replay_path) else os.path.join(tlc.VERIF, replay_path)))
        charts, pairs = doc['charts'], [tuple(doc['pair'])]
        edges = [{'pi': 1, 'hist': doc['hist']}]
        mc = dict(distinct=1, generated=1, completed=True, cmd='')
    else:
        d = tlc.workdir('C15_system')
        with open(os.path.join(d, 'PairsData.tla'), 'w') as f:
            f.write(pairs_module(charts, pairs))
        tlc.write_mc(d, 'System', dict(N=N, K=K, MaxQ=1, MaxLevel=3 if quick else 4, MaxBind=2, EmitEdges=True),
                     view='View', constraints=['Bounded'], action_constraints=['Emit'], props=['P_C15', 'P_Interp'])
        mc = tlc.run(d, timeout=3000, heap='12g')
        if mc['error'] or mc['violated']:
            print('MACHINERY-FAILURE property=C15: design check of System.tla failed\n' + (mc['error'] or mc['out'][-2500:]))
            return 2
        edges = [j for j in mc['json'] if 'hist' in j]
        cap = 40000 if quick else 80000       # bound the replay: a seeded sample of the explored edges
        if len(edges) > cap:
            edges = rng.sample(edges, cap)
    jobs = []
    for k, e in enumerate(edges):
        h = e['hist'] if isinstance(e['hist'], list) else []
        for x in h:
            if isinstance(x.get('gv'), dict):
                x['gv'] = []
        jobs.append((charts, pairs[e['pi'] - 1], h, k + 1, False))
    nedges = len(jobs)
    if not replay_path:      # seeded random long runs with the inbox targets and self-binding
        for k in range(200 if quick else 2000):
            pi = rng.randrange(len(pairs))
            h = []
            nb = [0, 0]
            for _ in range(rng.randint(6, 16)):
                i = rng.randint(1, N)
                r = rng.random()
                if r < 0.2 and nb[i - 1] < 3:
                    h.append({'op': 'bind', 'i': i, 'a': rng.randint(1, N + K + 1), 'b': 0, 'c': 0})
                    nb[i - 1] += 1
                elif r < 0.28 and nb[i - 1] > 0:
                    h.append({'op': 'detach', 'i': i, 'a': 1, 'b': 0, 'c': 0})
                    nb[i - 1] -= 1
                elif r < 0.5:
                    h.append({'op': 'queue', 'i': i, 'a': rng.choice([1, 2, 3]), 'b': 0, 'c': rng.choice([0, 0, 1])})
                elif r < 0.58:
                    h.append({'op': 'adv', 'i': i, 'a': 1, 'b': 0, 'c': 0})
                else:
                    h.append({'op': 'exec', 'i': i, 'a': 0, 'b': 0, 'c': 0, 'gv': []})
            jobs.append((charts, pairs[pi], h, nedges + k + 1, True))
    pis = {}
    for k, e in enumerate(edges):
        pis[k + 1] = e['pi']
    with multiprocessing.Pool(16) as pool:
        res = pool.map(run_system, jobs, chunksize=max(1, len(jobs) // 128))
    errs = [r for r in res if r['error']]
    if errs:
        print('MACHINERY-FAILURE property=C15: replay failed: ' + errs[0]['error'])
        return 2
    traces = []
    for r, job in zip(res, jobs):
        chk_all = job[4]
        for n_, ln in enumerate(r['lines']):
            ln['chk'] = 1 if (chk_all or n_ == len(r['lines']) - 1) else 0
            ln.pop('classes_', None)
        pi = pairs.index(job[1]) + 1
        traces.append({'id': r['id'], 'pi': pi, 'lines': r['lines']})
    # delivered events must be plain external Events (not InternalEvent)
    cls_viol = [r for r in res if any(set(l.get('classes', [])) - {'Event'} for l in r['lines'])]
    d2 = tlc.workdir('C15_system_tr')
    with open(os.path.join(d2, 'PairsData.tla'), 'w') as f:
        f.write(pairs_module(charts, pairs))
    for t in traces:
        for ln in t['lines']:
            ln.pop('classes', None)
    good = [t for t in traces if t['lines']]
    reports, tr = {}, {'error': None, 'cmd': ''}
    for bi in range(0, len(good), 25000):
        dd = d2 if bi == 0 else tlc.workdir('C15_system_tr%d' % (bi // 25000))
        if bi:
            with open(os.path.join(dd, 'PairsData.tla'), 'w') as f:
                f.write(pairs_module(charts, pairs))
        path = os.path.join(dd, 'traces.json')
        json.dump(good[bi:bi + 25000], open(path, 'w'))
        tlc.write_mc(dd, 'SystemTrace', {'N': N, 'K': K}, spec='TSpec', invariants=['Report'])
        tr = tlc.run(dd, env={'TRACE_FILE': path}, timeout=3000, heap='10g')
        reports.update({j['id']: j for j in tr['json'] if isinstance(j, dict) and 'id' in j})
        if tr['error']:
            break
    if tr['error'] or any(t['id'] not in reports for t in traces if t['lines']):
        print('MACHINERY-FAILURE property=C15: trace check failed or incomplete\n' + str(tr['error']))
        return 2
    nviol, out, cross = 0, [], {}
    for r in res:
        if not r['lines']:
            continue
        bad = reports[r['id']]['bad']
        bad = [] if isinstance(bad, dict) else bad
        mine = [b for b in bad if b[1] in ('C15', 'C05')]
        for b in bad:
            if b[1] not in ('C15', 'C05'):
                cross['%s.%s' % (b[1], b[2])] = cross.get('%s.%s' % (b[1], b[2]), 0) + 1
        if r in cls_viol:
            mine.append([0, 'C15', 'delivered_as_external_event'])
        if mine:
            nviol += 1
            if nviol <= 5:
                pth = evd.write_replay('C15', nviol, {'property': 'C15', 'charts': charts, 'pair': r['pair'], 'hist': r['hist'],
                                                      'failing': mine, 'last': r['lines'][-1]})
                out.append('VIOLATION property=C15 replay=%s' % pth)
                out.append('  failing=%s' % mine[:4])
    for ln in out:
        print(ln)
    if replay_path:
        return 1 if nviol else 0
    cov = dict(states=mc['distinct'], transitions=mc['generated'], traces_validated_against_impl=len(traces),
               samples=[{'pair': res[0]['pair'], 'hist': res[0]['hist']}, {'pair': res[-1]['pair'], 'hist': res[-1]['hist']}],
               exhaustive=bool(mc['completed']), edges_replayed=nedges, random_runs=len(traces) - nedges,
               charts=len(charts), pairs=len(pairs), cross_failures=cross, mc_cmd=mc['cmd'], trace_cmd=tr['cmd'],
               rule='System.tla: two interpreters and two callables, every sequence of bind/detach/queue/advance/'
                    'execute_once within bounds (chains, fan-out, cycles, self-binding), every edge replayed on real '
                    'interpreters; TLC (SystemTrace.tla) decides what had to be delivered during each call and the queue '
                    'formulas (C05) of each target with the delivered events in its ghost multiset')
    evd.write_evidence('C15', tier, seed, cov, time.time() - t0, nviol,
                       assumptions=['deliveries to a bound interpreter are observed by wrapping its queue method before binding'])
    print('C15 %s: %d states, %d edges + %d random runs replayed, %d violations, %.1fs' % (
        tier, mc['distinct'], nedges, len(traces) - nedges, nviol, time.time() - t0))
    return 1 if nviol else 0
