#!/bin/sh
# re-run every kept seeded change against its check (scratch worktrees); usage: seedregress.sh <stream> <nstreams>
i=0
for d in seeded/S-*; do
  i=$((i+1))
  [ $(( i % $2 )) -eq $(( $1 % $2 )) ] || continue
  id=$(basename $d)
  prop=$(/venv/bin/python -c "import json;print(json.load(open('$d/meta.json'))['property'])")
  SEED_SCRATCH=1 SEED_RECHECK=1 /venv/bin/python harness/seedtest.py $d $id $prop 2>&1 | tail -1
done
