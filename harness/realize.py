"""Abstraction function: abstract chart -> real sismic Statechart (DESIGN.md 5.1).

State i gets a concrete name whose lexicographic order equals the integer order.  The chart can be
built three ways which must all behave alike (C07):
  'api'   through add_state/add_transition, parents first, siblings and transitions in a seeded
          random declaration order;
  'yaml'  through YAML text in document order (children and transitions in integer order);
  'ryaml' through YAML text with children and transitions in reversed order.
"""
import random
import re

from sismic.model import (Statechart, BasicState, CompoundState, OrthogonalState, FinalState,
                          ShallowHistoryState, DeepHistoryState, Transition)
from sismic.io import import_from_yaml

import gen_charts as gc

_ALPHA = 'abcdefghijklmnopqrstuvwxyz'
_YAML11 = ['n', 'no', 'off', 'on', 'y', 'yes']


def _chars(i):
    """single-character names and two-character names that contain the previous single character"""
    return _ALPHA[i - 1] if i % 2 == 1 else _ALPHA[i - 1] + _ALPHA[i - 2]


POOLS = {
    'chars': _chars,
    'yaml11': lambda i: _YAML11[i - 1] if i <= len(_YAML11) else 'z%02d' % i,
    'plain': lambda i: 's%02d' % i,
    'unicode': lambda i: 'é\u00df%02d\u4e2d' % i,
    'yamlish': lambda i: '%02d: [x' % i,
    'digits': lambda i: '%03d' % i,
    'quote': lambda i: "'%02d\" #" % i,
}


def names_for(c, pool='plain'):
    f = POOLS[pool]
    names = {i: f(i) for i in range(1, c['n'] + 1)}
    assert sorted(names.values()) == [names[i] for i in range(1, c['n'] + 1)]
    return names


def ev_name(e):
    return 'e%d' % e


NACT = 'sum(map(active, NAMES))'     # what active() says about every state of the chart, at this point of the step
_DUAL = {}      # set by build(): which elements of the chart being realised share one source text


def _empty(d):
    return not (d['incx'] or d['sends'] or d['nots'] or d['tick'])


def dual_of(c):
    """Pairs of elements that are given the very same source text: the (oracle) guard of transition ta and the
    action of another transition tb; the first precondition of a state and the entry code of another state.  The
    elements on the statement side have an empty descriptor, so the text has one meaning per role (probes.dg/dc)."""
    out = {}
    tr = c['trans']
    if len(tr) % 2 == 0:
        ora = [i + 1 for i, t in enumerate(tr) if t['gk'] == 'oracle']
        bare = [i + 1 for i, t in enumerate(tr) if _empty(t['act']) and tr.count(t) == 1]
        pairs = [(a, b) for a in ora for b in bare if a != b]
        if pairs:
            out['g'] = pairs[0]
    owners = [s for s in range(1, c['n'] + 1) if c['spre'][s - 1] >= 1]
    quiet = [s for s in range(1, c['n'] + 1) if _empty(c['entry'][s - 1])]
    pairs = [(o, s) for o in owners for s in quiet if o != s]
    if pairs and c['n'] % 2 == 1:
        out['c'] = pairs[0]
    return out


def code_of(kind, ident, d):
    """Python source of a code fragment with descriptor d."""
    if kind == 'a' and _DUAL.get('g', (0, 0))[1] == ident:
        return 'dg(%d, %d, x, time, event, %s)' % (_DUAL['g'] + (NACT if ident % 2 == 0 else '-1',))
    if kind == 'e' and _DUAL.get('c', (0, 0))[1] == ident:
        return 'dc(%d, 1, %d, x, time, %s)' % (_DUAL['c'] + (NACT if ident % 2 == 0 else '-1',))
    nact = NACT if ident % 2 == 0 else '-1'      # only every other fragment looks at active()
    if kind == 'a':
        lines = ["p('a', %d, x, time, event, %s)" % (ident, nact)]
    else:
        lines = ["p('%s', %d, x, time, None, %s)" % (kind, ident, nact)]
    if d['incx']:
        lines.append('x = x + %d' % d['incx'])
        lines.append('box[0].append(x)')
        lines.append('lst.append(x)')
    snd = []
    for s in d['sends']:
        args = [repr(ev_name(s['ev']))]
        if s['dl'] or (s['ev'] + s['par']) % 2 == 0:      # sometimes an explicit delay=0
            args.append('delay=%d' % s['dl'])
        if s['par']:
            args.append('v=%d' % s['par'])
        snd.append('send(%s)' % ', '.join(args))
    nts = ["notify('m%d')" % m for m in d['nots']]
    lines += (nts + snd) if d.get('nf') else (snd + nts)
    if ident % 3 == 0 and len(lines) > 1:
        lines.insert(1, '  ' if ident % 2 else '\t')      # an inner line of blanks only (kept as it is by a round trip)
    if d['tick']:
        lines.append('tick(%d)' % d['tick'])
    return '\n'.join(lines)


def guard_of(tid, t, names):
    gk = t['gk']
    if gk == 'none':
        return None
    if gk == 'oracle':
        if _DUAL.get('g', (0, 0))[0] == tid:
            return 'dg(%d, %d, x, time, event, %s)' % (_DUAL['g'] + (NACT if _DUAL['g'][1] % 2 == 0 else '-1',))
        return 'g(%d, event, time)' % tid
    if gk == 'after':
        return 'g(%d, event, time, after(%d))' % (tid, t['ga'])
    if gk == 'idle':
        return 'g(%d, event, time, idle(%d))' % (tid, t['ga'])
    if gk in ('afterp', 'idlep'):
        return '%s(%d)' % (gk[:-1], t['ga'])
    if gk == 'active':
        return 'g(%d, event, time, active(%r))' % (tid, names[t['ga']])
    raise ValueError(gk)


def cond_code(ck, owner, idx):
    if ck == 1 and idx == 1 and _DUAL.get('c', (0, 0))[0] == owner:
        return 'dc(%d, 1, %d, x, time, %s)' % (_DUAL['c'] + (NACT if _DUAL['c'][1] % 2 == 0 else '-1',))
    if ck == 1:
        return 'c(1, %d, %d, time)' % (owner, idx)
    gen = ' and all(v >= 0 for v in lst)' if (owner + idx) % 3 == 0 else ''     # a nested scope inside a condition
    return 'c(%d, %d, %d, time, __old__, len(box[0]), after(1), idle(1), active(NAMES[0]))%s' % (ck, owner, idx, gen)


def contract_lists(owner, npre, npost, ninv):
    return ([cond_code(1, owner, k) for k in range(1, npre + 1)],
            [cond_code(2, owner, k) for k in range(1, npost + 1)],
            [cond_code(3, owner, k) for k in range(1, ninv + 1)])


def make_state(c, s, names):
    k = c['kind'][s - 1]
    name = names[s]
    on_entry = code_of('e', s, c['entry'][s - 1])
    on_exit = code_of('x', s, c['exit'][s - 1])
    if k == 'basic':
        st = BasicState(name, on_entry=on_entry, on_exit=on_exit)
    elif k == 'compound':
        ini = c['initial'][s - 1]
        st = CompoundState(name, initial=names[ini] if ini else None, on_entry=on_entry, on_exit=on_exit)
    elif k == 'orthogonal':
        st = OrthogonalState(name, on_entry=on_entry, on_exit=on_exit)
    elif k == 'final':
        st = FinalState(name, on_entry=on_entry, on_exit=on_exit)
    elif k == 'shallow':
        st = ShallowHistoryState(name, on_entry=on_entry, on_exit=on_exit, memory=names[c['memory'][s - 1]])
    elif k == 'deep':
        st = DeepHistoryState(name, on_entry=on_entry, on_exit=on_exit, memory=names[c['memory'][s - 1]])
    else:
        raise ValueError(k)
    pre, post, inv = contract_lists(s, c['spre'][s - 1], c['spost'][s - 1], c['sinv'][s - 1])
    st.preconditions.extend(pre)
    st.postconditions.extend(post)
    st.invariants.extend(inv)
    return st


def text_id_of(c, tid):
    """The number written in the action text.  A transition declared twice (equal in every field, unguarded, no
    contract) gets the texts of its first occurrence: the copies are equal objects; they can never run (C04)."""
    t = c['trans'][tid - 1]
    if t['gk'] == 'none' and not (t['pre'] or t['post'] or t['inv']):
        return 1 + c['trans'].index(t)
    return tid


def make_transition(c, tid, names):
    t = c['trans'][tid - 1]
    text_id = text_id_of(c, tid)
    tr = Transition(names[t['src']], names[t['tgt']] if t['tgt'] else None,
                    event=ev_name(t['ev']) if t['ev'] else None,
                    guard=guard_of(tid, t, names), action=code_of('a', text_id, t['act']),
                    priority=t['prio'])
    pre, post, inv = contract_lists(-tid, t['pre'], t['post'], t['inv'])
    tr.preconditions.extend(pre)
    tr.postconditions.extend(post)
    tr.invariants.extend(inv)
    return tr


def build_api(c, names, rng=None, order='random'):
    sc = Statechart('chart', description='generated', preamble='x = 0\nbox = [[]]\nlst = []')
    n = c['n']
    # parents before children; among the states that can be added, pick in the chosen order
    pending = list(range(1, n + 1))
    added = set()
    while pending:
        ready = [s for s in pending if c['parent'][s - 1] == 0 or c['parent'][s - 1] in added]
        if order == 'random' and rng is not None:
            s = rng.choice(ready)
        elif order == 'reversed':
            s = ready[-1]
        else:
            s = ready[0]
        p = c['parent'][s - 1]
        sc.add_state(make_state(c, s, names), names[p] if p else None)
        added.add(s)
        pending.remove(s)
    tids = list(range(1, len(c['trans']) + 1))
    if order == 'random' and rng is not None:
        rng.shuffle(tids)
    elif order == 'reversed':
        tids.reverse()
    for tid in tids:
        sc.add_transition(make_transition(c, tid, names))
    return sc


def _use(sc):
    """Every structural query once (a statechart that has been used before it is edited)."""
    for nm in list(sc.states):
        sc.depth_for(nm), sc.ancestors_for(nm), sc.descendants_for(nm), sc.children_for(nm), sc.parent_for(nm)
        sc.transitions_from(nm), sc.transitions_to(nm), sc.transitions_with(nm)
    sc.leaf_for(list(sc.states)), sc.events_for()


def build_api_edit(c, names, rng):
    """Build through the editing API: composite sub-trees are first created under the root and then
    moved to their place with move_state; some states are created under a temporary name and renamed."""
    sc = Statechart('chart', description='generated', preamble='x = 0\nbox = [[]]\nlst = []')
    n = c['n']
    r = gc.root(c)
    order = sorted(range(1, n + 1), key=lambda s: (gc.depth(c, s), rng.random()))
    moved = []
    tmpnames = {}
    for s in order:
        p = c['parent'][s - 1]
        st = make_state(c, s, names)
        where = p
        k = c['kind'][s - 1]
        if (p and p != r and k in ('compound', 'orthogonal', 'basic') and c['kind'][r - 1] in ('compound', 'orthogonal')
                and rng.random() < (0.7 if k != 'basic' else 0.4)):
            where = r
            moved.append(s)
        if rng.random() < 0.3:
            tmpnames[s] = 'zz_tmp_%d' % s
            st._name = tmpnames[s]
        pname = (tmpnames.get(where) or names[where]) if where else None
        sc.add_state(st, pname)
    for s in moved:
        _use(sc)
        sc.move_state(tmpnames.get(s) or names[s], tmpnames.get(c['parent'][s - 1]) or names[c['parent'][s - 1]])
    _use(sc)
    for s, t in tmpnames.items():
        sc.rename_state(t, names[s])
    # initial / memory may have been reset by move_state, or still carry final names of renamed states
    for s in range(1, n + 1):
        st = sc.state_for(names[s])
        if c['kind'][s - 1] == 'compound':
            st.initial = names[c['initial'][s - 1]] if c['initial'][s - 1] else None
        if c['kind'][s - 1] in ('shallow', 'deep'):
            st.memory = names[c['memory'][s - 1]]
    tids = list(range(1, len(c['trans']) + 1))
    rng.shuffle(tids)
    owners = [names[s] for s in range(1, n + 1) if c['kind'][s - 1] in gc.TRANS_KINDS]
    for tid in tids:
        tr = make_transition(c, tid, names)
        if rng.random() < 0.3 and len(owners) > 1:
            # registered on another state first, then moved to its place with rotate_transition
            right = tr.source
            tr._source = rng.choice([o for o in owners if o != right])
            sc.add_transition(tr)
            _use(sc)
            sc.rotate_transition(tr, new_source=right)
        else:
            sc.add_transition(tr)
    sc.validate()
    return sc


def _ystr(s):
    """A YAML double-quoted scalar."""
    out = s.replace('\\', '\\\\').replace('"', '\\"').replace('\n', '\\n')
    return '"' + out + '"'


def yaml_text(c, names, reverse=False):
    lines = ['statechart:', '  name: chart', '  description: generated', '  preamble: "x = 0\\nbox = [[]]\\nlst = []"', '  root state:']

    def contract(ind, pre, post, inv):
        out = []
        if pre or post or inv:
            out.append(ind + 'contract:')
            for x in pre:
                out.append(ind + '  - before: ' + _ystr(x))
            for x in post:
                out.append(ind + '  - after: ' + _ystr(x))
            for x in inv:
                out.append(ind + '  - always: ' + _ystr(x))
        return out

    def emit(s, ind, first_prefix):
        k = c['kind'][s - 1]
        pad = ' ' * ind
        out = [first_prefix + 'name: ' + _ystr(names[s])]
        if k == 'final':
            out.append(pad + 'type: final')
        elif k == 'shallow':
            out.append(pad + 'type: shallow history')
            out.append(pad + 'memory: ' + _ystr(names[c['memory'][s - 1]]))
        elif k == 'deep':
            out.append(pad + 'type: deep history')
            out.append(pad + 'memory: ' + _ystr(names[c['memory'][s - 1]]))
        out.append(pad + 'on entry: ' + _ystr(code_of('e', s, c['entry'][s - 1])))
        out.append(pad + 'on exit: ' + _ystr(code_of('x', s, c['exit'][s - 1])))
        if k == 'compound' and c['initial'][s - 1]:
            out.append(pad + 'initial: ' + _ystr(names[c['initial'][s - 1]]))
        out += contract(pad, *contract_lists(s, c['spre'][s - 1], c['spost'][s - 1], c['sinv'][s - 1]))
        tids = [i + 1 for i, t in enumerate(c['trans']) if t['src'] == s]
        if reverse:
            tids.reverse()
        if tids:
            out.append(pad + 'transitions:')
            for tid in tids:
                t = c['trans'][tid - 1]
                first = True
                items = []
                if t['tgt']:
                    items.append('target: ' + _ystr(names[t['tgt']]))
                if t['ev']:
                    items.append('event: ' + ev_name(t['ev']))
                g = guard_of(tid, t, names)
                if g:
                    items.append('guard: ' + _ystr(g))
                items.append('action: ' + _ystr(code_of('a', text_id_of(c, tid), t['act'])))
                if t['prio']:
                    items.append('priority: ' + ({1: 'high', -1: 'low'}.get(t['prio'], str(t['prio']))))
                for it in items:
                    out.append(pad + ('  - ' if first else '    ') + it)
                    first = False
                out += contract(pad + '    ', *contract_lists(-tid, t['pre'], t['post'], t['inv']))
        kids = gc.children(c, s)
        if reverse:
            kids.reverse()
        if kids:
            out.append(pad + ('states:' if k == 'compound' else 'parallel states:'))
            for ch in kids:
                out += emit(ch, ind + 4, pad + '  - ')
        return out

    lines += emit(gc.root(c), 4, '    ')
    return '\n'.join(lines) + '\n'


def build(c, variant='api', pool='plain', seed=0):
    names = names_for(c, pool)
    _DUAL.clear()
    _DUAL.update(dual_of(c))
    if variant == 'api':
        sc = build_api(c, names, random.Random(seed), 'random')
    elif variant == 'api_edit':
        sc = build_api_edit(c, names, random.Random(seed))
    elif variant == 'api_sorted':
        sc = build_api(c, names, None, 'sorted')
    elif variant == 'api_reversed':
        sc = build_api(c, names, None, 'reversed')
    elif variant == 'yaml':
        sc = import_from_yaml(yaml_text(c, names, reverse=False))
    elif variant == 'ryaml':
        sc = import_from_yaml(yaml_text(c, names, reverse=True))
    else:
        raise ValueError(variant)
    return sc, names


_TID = re.compile(r"(?:p\('a'|dg\(\d+), (\d+),")


def tid_of(transition):
    m = _TID.match(transition.action or '')
    return int(m.group(1)) if m else 0


def rename_some(sc, names, seed):
    """rename_state on a seeded random subset of the states, with new names that keep the relative
    lexicographic order (C17): name -> name + suffix, which still sorts before the next name because
    all names of a pool have the same length and differ before the end."""
    rng = random.Random(seed)
    names = dict(names)
    ids = sorted(names)
    # the statechart has been used before it is renamed (every public structural query once)
    for n in list(sc.states):
        sc.depth_for(n), sc.ancestors_for(n), sc.descendants_for(n), sc.children_for(n), sc.parent_for(n)
    sc.leaf_for(sc.states), sc.events_for(), sc.validate()
    # renamings that are refused (the name is taken) or void (same name) change nothing
    from sismic.exceptions import StatechartError
    if len(ids) >= 2:
        for _ in range(2):
            a, b = rng.sample(ids, 2)
            try:
                sc.rename_state(names[a], names[b])
            except StatechartError:
                pass
        sc.rename_state(names[ids[-1]], names[ids[-1]])
    if rng.random() < 0.5:
        # shift: every state takes the former name of its predecessor (the first one gets a smaller name)
        first = '!' + names[ids[0]]
        prev = names[ids[0]]
        sc.rename_state(prev, first)
        names[ids[0]] = first
        for i in ids[1:]:
            if rng.random() < 0.8:
                cur = names[i]
                sc.rename_state(cur, prev)
                names[i] = prev
                prev = cur
            else:
                break
    else:
        chosen = [i for i in ids if rng.random() < 0.6] or ids[:1]
        rng.shuffle(chosen)
        for i in chosen:
            new = names[i] + rng.choice(['x', '_r', ' z', '\u00e9'])
            sc.rename_state(names[i], new)
            names[i] = new
    assert sorted(names.values()) == [names[i] for i in ids], names
    return sc, names


def plug_into_host(guest, names, gc_root):
    """copy_from_statechart(guest) into a host: compound root with one basic state that is replaced by the
    guest's root; the guest's other states are renamed by an order-preserving renaming function (C17)."""
    host = Statechart('host', description='host', preamble=guest.preamble)
    hroot = '!host'
    plug = '!plug'
    host.add_state(CompoundState(hroot, initial=plug), None)
    host.add_state(BasicState(plug), hroot)
    f = lambda n: n + '~'
    host.copy_from_statechart(guest, source=names[gc_root], replace=plug, renaming_func=f)
    new = {i: (plug if i == gc_root else f(n)) for i, n in names.items()}
    assert sorted(new[i] for i in new if i != gc_root) == [new[i] for i in sorted(new) if i != gc_root]
    host.validate()
    return host, new, {hroot}
