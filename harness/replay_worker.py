"""Replays jobs in this (fresh) process; used to compare runs across PYTHONHASHSEED values (C07)."""
import json
import sys

import engine

if __name__ == '__main__':
    d = json.load(open(sys.argv[1]))
    traces = engine.replay(d['charts'], [tuple(j) for j in d['jobs']], procs=8)
    for t in traces:
        t.pop('kw', None)
    json.dump(traces, open(sys.argv[2], 'w'))
