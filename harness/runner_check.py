"""C20: Runner.tla (all schedules of runner vs client) -> forced on real threads -> RunnerTrace.tla."""
import itertools
import json
import multiprocessing
import os
import random
import time

import tlc
import evidence as evd

FIN = 9


def scripts(rng, quick):
    """Client scripts: sequences of queue/pause/unpause/advance/stop."""
    Q = lambda e, d: {'op': 'queue', 'ev': e, 'd': d}
    P, U, S = {'op': 'pause', 'ev': 0, 'd': 0}, {'op': 'unpause', 'ev': 0, 'd': 0}, {'op': 'stop', 'ev': 0, 'd': 0}
    A = lambda d: {'op': 'advance', 'ev': 0, 'd': d}
    ST = {'op': 'start', 'ev': 0, 'd': 0}
    base = [
        [Q(1, 0), S],
        [Q(1, 0), Q(2, 0), S],
        [Q(1, 0), Q(2, 2), Q(3, 1), A(2), S],          # the insertion race (D11)
        [Q(1, 1), A(1), Q(2, 0), S],
        [P, Q(1, 0), U, S],
        [Q(1, 0), P, U, S],
        [P, S],
        [Q(1, 0), P, Q(2, 0), S],
        [Q(FIN, 0)],                                   # stops by itself
        [Q(1, 0), Q(FIN, 0), Q(2, 0)],
        [Q(FIN, 1), A(1), P],
        [A(1), Q(1, 1), A(1), S],
        [Q(1, 0), U, P, U],
        [S],
        [Q(2, 1), Q(1, 0), A(1), S],
        # the client starts the runner itself: stop before start, start twice, pause before start
        [ST, Q(1, 0), S],
        [S, ST],
        [S, ST, Q(1, 0)],
        [Q(1, 0), ST, ST, S],
        [P, ST, Q(1, 0), S],
        [ST, S, ST],
        # stop() while the runner is ending by itself (final statechart)
        [Q(FIN, 0), S],
        [Q(FIN, 0), P, S],
    ]
    if not quick:
        ops = [Q(1, 0), Q(2, 1), Q(3, 2), P, U, A(1), A(2)]
        for n in (2, 3):
            for combo in itertools.permutations(ops, n):
                evs = [o['ev'] for o in combo if o['op'] == 'queue']
                if len(set(evs)) == len(evs) and rng.random() < (0.5 if n == 2 else 0.06):
                    base.append(list(combo) + [S])
    return base


def _replay(args):
    import sched
    i, script, xall, who = args
    try:
        lines, err = sched.replay(script, xall, who)
    except Exception as e:
        import traceback
        return {'id': i, 'error': '%s: %s %s' % (type(e).__name__, e, traceback.format_exc()[-600:]), 'lines': []}
    return {'id': i, 'script': script, 'xall': xall, 'who': who, 'lines': lines, 'error': err}


def main(prop, tier, seed, replay_path=None):
    t0 = time.time()
    quick = tier == 'quick'
    rng = random.Random(seed * 13 + 20)
    findings = evd.open_findings('C20')
    if replay_path:
        doc = json.load(open(replay_path if os.path.isabs(replay_path) else os.path.join(tlc.VERIF, replay_path)))
        jobs = [(1, doc['script'], doc['xall'], doc['who'])]
        mc = dict(distinct=1, generated=1, completed=True, cmd='', wall_s=0)
        live = None
    else:
        scr = scripts(rng, quick)
        d = tlc.workdir('C20_runner')
        consts = dict(Scripts=None, ExecAlls={False, True}, Fin=FIN, MaxCycles=3, EmitEdges=True)
        defs = ['MC_Scripts == {' + ', '.join(tlc.tla_value(s) for s in scr) + '}']
        consts.pop('Scripts')
        tlc.write_mc(d, 'Runner', consts, defs=defs, view='View', constraints=['Bounded'], action_constraints=['Emit'],
                     invariants=['Safety', 'EventSafetyUnlessRaced'], extra_cfg=['CONSTANT Scripts <- MC_Scripts'], deadlock=True)
        mc = tlc.run(d, timeout=3000, heap='12g')
        if mc['error'] or mc['violated']:
            print('MACHINERY-FAILURE property=C20: design check of Runner.tla failed\n' + (mc['error'] or mc['out'][-3000:]))
            return 2
        # liveness under fairness, no state constraint (a few scripts; small)
        d2 = tlc.workdir('C20_runner_live')
        lscr = [s for s in scr if len(s) <= 4][:8 if quick else 40]
        tlc.write_mc(d2, 'Runner', dict(ExecAlls={False}, Fin=FIN, MaxCycles=99, EmitEdges=False),
                     defs=['MC_Scripts == {' + ', '.join(tlc.tla_value(s) for s in lscr) + '}',
                           'LiveBound == ncycles <= 3'],
                     spec='FairSpec', view=None, constraints=['LiveBound'], props=['StopReturns', 'FinalStops'],
                     extra_cfg=['CONSTANT Scripts <- MC_Scripts'])
        live = tlc.run(d2, timeout=1800, workers=4)
        if live['error'] or live['violated']:
            print('MACHINERY-FAILURE property=C20: liveness check of Runner.tla failed\n' + (live['error'] or live['out'][-3000:]))
            return 2
        hs = {}
        for j in mc['json']:
            if 'hist' in j:
                h = j['hist'] if isinstance(j['hist'], list) else []
                sc_ = j['script'] if isinstance(j['script'], list) else []
                hs[(json.dumps(sc_), j['xall'], ''.join(h))] = (sc_, j['xall'], h)
        keys = sorted(hs, key=lambda k: (k[0], k[1], k[2]))
        leaves = []
        for i, k in enumerate(keys):
            nxt = keys[i + 1] if i + 1 < len(keys) else None
            if not (nxt and nxt[0] == k[0] and nxt[1] == k[1] and nxt[2].startswith(k[2])):
                leaves.append(hs[k])
        nedges = len(hs)
        cap = 40000 if quick else 70000        # bound the real-thread replay: a seeded sample of the maximal schedules
        if len(leaves) > cap:
            leaves = rng.sample(leaves, cap)
        jobs = [(i + 1, s, x, h) for i, (s, x, h) in enumerate(leaves)]
    with multiprocessing.Pool(16) as pool:
        res = pool.map(_replay, jobs, chunksize=max(1, len(jobs) // 256))
    errs = [r for r in res if r.get('error') and not r['lines']]
    if errs:
        print('MACHINERY-FAILURE property=C20: replay failed: ' + errs[0]['error'])
        return 2
    # one tree per (script, execute_all): schedules that share a prefix share its nodes
    trees, uid = {}, 0
    for r in res:
        key = (json.dumps(r['script']), r['xall'])
        tree = trees.setdefault(key, {'script': r['script'], 'xall': r['xall'], 'roots': [], 'nodes': [], '_ix': {}})
        cur, uids = 0, []
        for w, ln in zip(r['who'], r['lines']):
            k = (cur, w)
            ix = tree['_ix'].get(k)
            if ix is None:
                uid += 1
                tree['nodes'].append({'uid': uid, 'kids': [], 'who': w, 'obs': ln['obs']})
                ix = len(tree['nodes'])
                tree['_ix'][k] = ix
                (tree['roots'] if cur == 0 else tree['nodes'][cur - 1]['kids']).append(ix)
            uids.append(tree['nodes'][ix - 1]['uid'])
            cur = ix
        r['uids'] = uids
    tl = []
    for t in trees.values():
        del t['_ix']
        tl.append(t)
    d3 = tlc.workdir('C20_runner_tr')
    path = os.path.join(d3, 'traces.json')
    json.dump(tl, open(path, 'w'))
    tlc.write_mc(d3, 'RunnerTrace', dict(ExecAlls={False, True}, Fin=FIN, MaxCycles=99, EmitEdges=False, Scripts=set()),
                 spec='TSpec')
    tr = tlc.run(d3, env={'TRACE_FILE': path}, timeout=3000, heap='12g')
    nodes = {j['u']: j for j in tr['json'] if isinstance(j, dict) and 'u' in j}
    if tr['error'] or len(nodes) != uid:
        print('MACHINERY-FAILURE property=C20: trace check failed or incomplete (%d of %d nodes)\n%s' % (len(nodes), uid, tr['error']))
        return 2
    nviol, known, out, divs, hangs = 0, 0, [], 0, 0
    seen = set()
    lst = lambda x: [] if isinstance(x, dict) else x
    for r in res:
        fail, isknown = [], False
        for i, u in enumerate(r['uids']):
            if u in seen:
                continue
            seen.add(u)
            n = nodes[u]
            divs += n['d']
            fail += [[i + 1, x] for x in lst(n['b'])]
            if lst(n['e']):
                if n['r'] and any(f.get('id') == 'D11' for f in findings):
                    isknown = True
                else:
                    fail += [[i + 1, x] for x in lst(n['e'])]
        if r.get('error'):       # a thread the model says is runnable never reached its next point
            hangs += 1
            fail.append([len(r['lines']) + 1, 'hang'])
        known += 1 if isknown else 0
        if fail:
            nviol += 1
            if nviol <= 5:
                pth = evd.write_replay('C20', nviol, {'property': 'C20', 'script': r['script'], 'xall': r['xall'],
                                                      'who': r['who'], 'failing': fail,
                                                      'last': r['lines'][-1] if r['lines'] else None})
                out.append('VIOLATION property=C20 replay=%s' % pth)
                out.append('  clauses=%s script=%s execute_all=%s' % (sorted({b[1] for b in fail}),
                                                                     [o['op'] for o in r['script']], r['xall']))
    if known:
        for f in findings:
            if f.get('id') == 'D11':
                print('KNOWN-FINDING: property=C20 %s (reproduced on real threads in %d schedules)' % (f['what'], known))
    for ln in out:
        print(ln)
    if replay_path:
        return 1 if nviol else 0
    cov = dict(states=mc['distinct'], transitions=mc['generated'], traces_validated_against_impl=len(res),
               samples=[{'script': res[0]['script'], 'xall': res[0]['xall'], 'who': ''.join(res[0]['who'])},
                        {'script': res[-1]['script'], 'xall': res[-1]['xall'], 'who': ''.join(res[-1]['who'])}],
               exhaustive=bool(mc['completed']), scripts=len(scr), edges=nedges, schedules_forced=len(res),
               steps_forced=sum(len(r['lines']) for r in res), divergences=divs, hangs=hangs,
               known_findings_reproduced=known, liveness=dict(states=live['distinct'], cmd=live['cmd']),
               mc_cmd=mc['cmd'], trace_cmd=tr['cmd'],
               rule='Runner.tla: every interleaving of the runner thread and one client thread at the granularity of the '
                    'scheduling points, for every client script, execute_all in {False, True}; every maximal explored '
                    'schedule is forced on the real threads (harness/sched.py) and every observed step is evaluated by TLC')
    evd.write_evidence('C20', tier, seed, cov, time.time() - t0, nviol,
                       assumptions=['CPython GIL: thread switches matter only at the instrumented points',
                                    'one client thread; interval pacing replaced by a scheduling point'])
    print('C20 %s: %d states, %d edges, %d schedules forced on real threads (%d steps), %d violations, %d known, %.1fs' % (
        tier, mc['distinct'], nedges, len(res), cov['steps_forced'], nviol, known, time.time() - t0))
    return 1 if nviol else 0
