"""Self-tests of the machinery (not part of any verdict): the binding demonstration of DESIGN.md section 8.

For each trace spec: record real executions, check they are accepted, then corrupt ONE recorded field and
check that the trace spec rejects the corrupted execution with a clause of the expected property.
Writes selftest/RESULTS.md.   usage:  ./check selftest
"""
import copy
import json
import os
import random
import sys
import time

import gen_charts as gc
import engine
import tlc

os.environ.setdefault('VERIF_WORK', 'selftest')


def interp_cases(rng):
    charts = gc.family_f3(rng, 12, nmin=4, nmax=7, contracts=True) + gc.family_hist(rng, 6)
    jobs = []
    for ci in range(1, len(charts) + 1):
        for _ in range(3):
            jobs.append((ci, engine.random_history(rng, charts[ci - 1], 14, delays=(0, 1), advances=(1,)), dict(variant='api'), True))
    traces = engine.replay(charts, jobs, procs=1)
    return charts, traces


def corruptions(line):
    """(name, expected property prefix, mutated copy) for one recorded exec line with a macro step."""
    out = []
    steps = line['steps']
    if line['op'] != 'exec' or not line['some']:
        return out
    for k, m in enumerate(steps):
        if m['exited']:
            c = copy.deepcopy(line)
            c['steps'][k]['exited'] = c['steps'][k]['exited'][1:]
            out.append(('drop a state from exited_states', ('C03',), c))
            break
    for k, m in enumerate(steps):
        if len(m['entered']) >= 2:
            c = copy.deepcopy(line)
            c['steps'][k]['entered'] = list(reversed(c['steps'][k]['entered']))
            out.append(('reverse entered_states of a micro step', ('C03', 'C06'), c))
            break
    code = [i for i, e in enumerate(line['log']) if e['k'] in ('xcode', 'acode', 'ecode')]
    if len(code) >= 2:
        c = copy.deepcopy(line)
        i, j = code[0], code[1]
        c['log'][i], c['log'][j] = c['log'][j], c['log'][i]
        out.append(('swap two code probes in the log', ('C03', 'C08', 'C10'), c))
    if line['post']['conf']:
        c = copy.deepcopy(line)
        c['post']['conf'] = c['post']['conf'][:-1]
        out.append(('drop a state from the observed configuration', ('C02', 'C03'), c))
    if steps and steps[0]['ev']:
        c = copy.deepcopy(line)
        for m in c['steps']:
            if m['ev']:
                m['ev'] = m['ev'] + 1
        out.append(('change the consumed event', ('C05', 'C01', 'C10'), c))
    c = copy.deepcopy(line)
    c['post']['time'] = c['post']['time'] + 1
    out.append(('shift Interpreter.time after the call', ('C13', 'C14'), c))
    metas = [i for i, e in enumerate(line['log']) if e['k'] in ('emeta', 'xmeta')]
    if metas:
        c = copy.deepcopy(line)
        del c['log'][metas[0]]
        out.append(('remove one state entered/exited meta-event (probe disabled)', ('C10',), c))
    return out


SPEC_MUTANTS = [
    # (name, property whose design check must refute it, file, old text, new text, family)
    ('leaf-only stabilisation (defect D1 at model level)', 'C02', 'Semantics.tla',
     'ELSE IF inc # <<>> THEN Micro(NoEv, 0, SortName(Children(c, inc[1]) \\ conf), <<>>)',
     'ELSE IF FALSE THEN Micro(NoEv, 0, SortName(Children(c, inc[1]) \\ conf), <<>>)', 'f1'),
    ('exit order = reverse name order among siblings (defect D2 at model level)', 'C03', 'Semantics.tla',
     'IN Micro(evr, i, EnterPath(c, l, t.tgt), SortNegDN(c, Subtree(c, ch) \\cap conf))',
     'IN Micro(evr, i, EnterPath(c, l, t.tgt), SetToSortSeq(Subtree(c, ch) \\cap conf, '
     'LAMBDA a, b : Depth(c, a) > Depth(c, b) \\/ (Depth(c, a) = Depth(c, b) /\\ a > b)))', 'f1'),
    ('two transitions of one state are not a non-determinism (defect D3 at model level)', 'C04', 'Semantics.tla',
     'IN IF ta.src = tb.src \\/ l = 0 \\/ c.kind[l] # "orthogonal" THEN "NonDeterminismError"',
     'IN IF l = 0 \\/ c.kind[l] # "orthogonal" THEN "NonDeterminismError"', 'f2'),
    ('left bisect in the event queue (LIFO among equal due times)', 'C05', 'Semantics.tla',
     'LET pos == Cardinality({i \\in DOMAIN q : q[i].due <= e.due})',
     'LET pos == Cardinality({i \\in DOMAIN q : q[i].due < e.due})', 'queue'),
    ('shallow history remembers all descendants', 'C06', 'Semantics.tla',
     'ELSE conf0 \\cap Children(c, s)', 'ELSE conf0 \\cap Descendants(c, s)', 'hist'),
]


def spec_mutants(rng):
    """Deliberately wrong variants of the operational spec must be refuted by the design check of the matching
    property (the declarative formulas are not vacuous, and the model would have found D1-D3 by itself)."""
    import interp_check
    rows = []
    for (name, prop, fname, old, new, fam) in SPEC_MUTANTS:
        old, new = old.replace('\\\\', '\\'), new.replace('\\\\', '\\')
        if fam == 'f1':
            charts = [c for c in gc.family_f1(4)]
            consts = dict(MaxQ=1, MaxLevel=6)
        elif fam == 'f2':
            charts = gc.family_f2(rng, 60)
            consts = dict(MaxQ=1, MaxLevel=5)
        elif fam == 'hist':
            charts = [c for c in gc.family_f1(4) if any(k in ('shallow', 'deep') for k in c['kind'])] + gc.family_hist(rng, 10)
            consts = dict(MaxQ=1, MaxLevel=8)
        else:
            charts = gc.family_f3(rng, 6, nmin=3, nmax=4, tmin=3, tmax=5, nev=2, max_oracle=1)
            consts = dict(MaxQ=3, MaxClk=1, Delays={0, 1}, Advances={1}, MaxLevel=6)
        d = tlc.workdir('selftest_specmut_' + prop)
        path = os.path.join(d, fname)
        text = open(path).read()
        if old not in text:
            rows.append(('spec mutant: ' + name, 'NOT APPLIED (text not found)', False))
            continue
        open(path, 'w').write(text.replace(old, new))
        with open(os.path.join(d, 'ChartsData.tla'), 'w') as f:
            f.write(gc.tla_charts_module('ChartsData', charts))
        k = dict(engine.DEFAULT_CONSTS)
        k.update(consts)
        k['EmitEdges'] = False
        defs = ['ASSUME ChartsWF', 'MCProp == [][BadOf("%s", c, G, last\') = {}]_vars' % prop]
        tlc.write_mc(d, 'Sismic', k, defs=defs, props=['MCProp'], view='View', constraints=['Bounded'])
        r = tlc.run(d, timeout=900)
        refuted = 'MCProp is violated' in r['out'] or ('violated' in r['out'] and 'MCProp' in r['out'])
        rows.append(('spec mutant: ' + name, 'refuted by the design check of %s' % prop if refuted
                     else 'NOT refuted (%d states)' % r['distinct'], refuted))
    return rows


def main():
    t0 = time.time()
    rng = random.Random(7)
    charts, traces = interp_cases(rng)
    rows = []
    # 1. the recorded executions themselves are accepted
    reports, st = engine.trace_check('selftest_base', charts, traces)
    base_bad = sum(1 for t in traces for u in t['uids'] if reports[u]['bad'])
    rows.append(('interpreter: %d recorded runs, %d lines, uncorrupted' % (len(traces), sum(len(t['lines']) for t in traces)),
                 'accepted' if base_bad == 0 else 'REJECTED (%d lines)' % base_bad, base_bad == 0))
    # 2. one corrupted field per trace
    mutated, expect = [], []
    for t in traces:
        for ln_i, ln in enumerate(t['lines']):
            cs = corruptions(ln)
            if not cs:
                continue
            name, props, c = cs[rng.randrange(len(cs))]
            t2 = dict(t, id=len(mutated) + 1, lines=t['lines'][:ln_i] + [c], hist=t['hist'][:ln_i + 1],
                      kw=dict(t['kw'], corrupted=name + str(len(mutated))))
            mutated.append(t2)
            expect.append((name, props, ln_i))
            break
    reports, st = engine.trace_check('selftest_mut', charts, mutated)
    by = {}
    for t, (name, props, ln_i) in zip(mutated, expect):
        bad = reports[t['uids'][ln_i]]['bad']
        hit = any(b[0] in props for b in bad)
        by.setdefault(name, [0, 0, set()])
        by[name][0] += 1
        by[name][1] += 1 if hit else 0
        by[name][2].update(b[0] + '.' + b[1] for b in bad)
    for name, (n, k, cl) in sorted(by.items()):
        rows.append(('interpreter: ' + name, '%d/%d rejected; clauses %s' % (k, n, ', '.join(sorted(cl)[:6])), k == n))
    # 3. clock
    import clock_check
    hists = [clock_check.random_hist(rng, 20) for _ in range(40)]
    lines = []
    for i, h in enumerate(hists):
        ls = clock_check.drive(h)
        for x in ls:
            x['before'], x['after'] = int(x['before']), int(x['after'])
        lines.append({'id': 2 * i + 1, 'lines': ls})
        ls2 = copy.deepcopy(ls)
        k = rng.randrange(len(ls2))
        ls2[k]['after'] += 1
        lines.append({'id': 2 * i + 2, 'lines': ls2})
    d = tlc.workdir('selftest_clock')
    path = os.path.join(d, 'traces.json')
    json.dump(lines, open(path, 'w'))
    tlc.write_mc(d, 'ClockTrace', {}, spec='TSpec', invariants=['Report'])
    tr = tlc.run(d, env={'TRACE_FILE': path})
    rep = {j['id']: j for j in tr['json'] if isinstance(j, dict) and 'id' in j}
    good = sum(1 for i in range(len(hists)) if not (rep[2 * i + 1]['bad'] if isinstance(rep[2 * i + 1]['bad'], list) else []))
    badc = sum(1 for i in range(len(hists)) if (rep[2 * i + 2]['bad'] if isinstance(rep[2 * i + 2]['bad'], list) else []))
    rows.append(('clock: %d recorded operation sequences, uncorrupted' % len(hists), '%d/%d accepted' % (good, len(hists)), good == len(hists)))
    rows.append(('clock: one observed value shifted by 1', '%d/%d rejected' % (badc, len(hists)), badc == len(hists)))
    rows += spec_mutants(rng)
    ok = all(r[2] for r in rows)
    os.makedirs(os.path.join(tlc.VERIF, 'selftest'), exist_ok=True)
    with open(os.path.join(tlc.VERIF, 'selftest', 'RESULTS.md'), 'w') as f:
        f.write('# Binding demonstration (harness/selftest.py)\n\n')
        f.write('Recorded real executions are accepted by the trace specs; the same executions with ONE recorded field\n'
                'corrupted are rejected with a clause of the property that field belongs to.\n\n')
        f.write('| case | result | ok |\n|---|---|---|\n')
        for r in rows:
            f.write('| %s | %s | %s |\n' % (r[0], r[1], 'yes' if r[2] else 'NO'))
        f.write('\n(%.0f s)\n' % (time.time() - t0))
    for r in rows:
        print('%-75s %-60s %s' % (r[0][:75], r[1][:60], 'ok' if r[2] else 'FAIL'))
    return 0 if ok else 2


if __name__ == '__main__':
    sys.exit(main())
