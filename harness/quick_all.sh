#!/bin/sh
# every quick check once with the given seed; one summary line per check
seed="$1"; shift
for p in "$@"; do
  s=$(date +%s)
  timeout 1800 ./check $p --tier quick --seed $seed > quick_${seed}_$p.log 2>&1
  echo "seed=$seed $p exit=$? $(( $(date +%s) - s ))s $(tail -1 quick_${seed}_$p.log | cut -c1-150)"
done
