"""C19: Bdd.tla / BddMC.tla (scenario enumeration) -> real execute_bdd (behave) -> BddTrace.tla."""
import json
import multiprocessing
import os
import random
import tempfile
import time

import gen_charts as gc
import tlc
import evidence as evd


def family_bdd(rng, count):
    """Small quiescent charts with plain code (no probes): counters, sends, a final state, x-guards."""
    out = []
    # one fixed chart: a macro step that sends the same event twice with different payloads
    w = gc.new_chart(['compound', 'basic', 'basic', 'final'], [0, 1, 1, 1], [2, 0, 0, 0], [0, 0, 0, 0])
    w['trans'] = [gc.mk_trans(2, 3, 1, 0, 'none', 0, gc.desc(incx=1, sends=[(3, 0, 0), (3, 0, 7)])),
                  gc.mk_trans(3, 2, 1, 0, 'none', 0, gc.desc(sends=[(3, 0, 7), (3, 0, 0), (3, 0, 8)])),
                  gc.mk_trans(3, 4, 2, 0, 'xlt', 2, gc.desc()),
                  gc.mk_trans(1, 0, 3, 0, 'none', 0, gc.desc(incx=1))]
    w['events'] = [1, 2, 3]
    assert gc.wf(w)
    out.append(w)
    while len(out) < count:
        c = gc.random_tree(rng, rng.randint(3, 5), allow_history=rng.random() < 0.3, allow_final=True, p_orth=0.3)
        n = c['n']
        srcs = [s for s in range(1, n + 1) if c['kind'][s - 1] in gc.TRANS_KINDS]
        trans = []
        for _ in range(rng.randint(3, 6)):
            s = rng.choice(srcs)
            tg = rng.choice([0] + [t for t in range(1, n + 1) if gc.wf_transition(c, s, t)] * 2)
            ev = rng.choice([1, 2])
            r0 = rng.random()
            # x-guards, and time guards (a composite step must run the interpreter after each of its sub-steps)
            gk, ga = ('xlt', rng.choice([1, 2, 3])) if r0 < 0.3 else (('afterp', rng.choice([1, 2])) if r0 < 0.5 else ('none', 0))
            r_ = rng.random()
            snd = [(3, 0, rng.choice([0, 7, 8]))] if r_ < 0.3 else \
                ([(3, 0, 0), (3, 0, 7)] if r_ < 0.45 else ([(3, 0, 7), (3, 0, 0)] if r_ < 0.55 else []))
            act = gc.desc(incx=rng.choice([0, 1]), sends=snd)
            t = gc.mk_trans(s, tg, ev, 0, gk, ga, act)
            if not any(u['src'] == s and u['ev'] == ev for u in trans):     # deterministic by construction
                trans.append(t)
        # at most one transition on the internal event 3, to keep runs finite
        if rng.random() < 0.5:
            s = rng.choice(srcs)
            trans.append(gc.mk_trans(s, 0, 3, 0, 'none', 0, gc.desc(incx=1)))
        c['trans'] = trans
        for s in range(1, n + 1):
            if rng.random() < 0.3:
                c['entry'][s - 1] = gc.desc(incx=1)
        c['events'] = [1, 2, 3]
        if gc.wf(c) and len({(t['src'], t['ev']) for t in trans}) == len(trans):
            # avoid non-determinism between a state and its ancestors' orthogonal siblings: keep it simple
            out.append(c)
    return out


def build_plain(c):
    from sismic.model import (Statechart, BasicState, CompoundState, OrthogonalState, FinalState,
                              ShallowHistoryState, DeepHistoryState, Transition)
    names = {i: 's%02d' % i for i in range(1, c['n'] + 1)}

    def code(d, tr=False):
        lines = []
        if tr:      # a statechart that changes the (mutable) payload it was handed, in place
            lines.append("if isinstance(getattr(event, 'v', None), list): event.v.append(0)")
        if d['incx']:
            lines.append('x = x + %d' % d['incx'])
            lines.append('w = w + [0] * %d' % d['incx'])
        for s in d['sends']:
            lines.append("send('e%d'%s)" % (s['ev'], {0: '', 7: ', v=7', 8: ', v=7, u=1'}[s['par']]))
        return '\n'.join(lines) or None
    sc = Statechart('bdd', preamble='x = 0\nw = []')
    pending, added = list(range(1, c['n'] + 1)), set()
    while pending:
        s = [x for x in pending if c['parent'][x - 1] == 0 or c['parent'][x - 1] in added][0]
        k = c['kind'][s - 1]
        kw = dict(on_entry=code(c['entry'][s - 1]), on_exit=code(c['exit'][s - 1]))
        if k == 'basic':
            st = BasicState(names[s], **kw)
        elif k == 'compound':
            st = CompoundState(names[s], initial=names[c['initial'][s - 1]], **kw)
        elif k == 'orthogonal':
            st = OrthogonalState(names[s], **kw)
        elif k == 'final':
            st = FinalState(names[s], **kw)
        elif k == 'shallow':
            st = ShallowHistoryState(names[s], memory=names[c['memory'][s - 1]], **kw)
        else:
            st = DeepHistoryState(names[s], memory=names[c['memory'][s - 1]], **kw)
        sc.add_state(st, names[c['parent'][s - 1]] if c['parent'][s - 1] else None)
        added.add(s)
        pending.remove(s)
    for t in c['trans']:
        g = 'x < %d' % t['ga'] if t['gk'] == 'xlt' else ('after(%d)' % t['ga'] if t['gk'] == 'afterp' else None)
        sc.add_transition(Transition(names[t['src']], names[t['tgt']] if t['tgt'] else None,
                                     event='e%d' % t['ev'] if t['ev'] else None, guard=g, action=code(t['act'], tr=True)))
    return sc, names


def par_text(b, form):
    """Event parameters b (0 none, 7: v=7, 8: v=7 and u=1) in the inline form, the table form, or both at once."""
    tbl = lambda rows: ''.join('\n      | %s | %s |' % r for r in [('parameter', 'value')] + rows)
    if b == 0:
        return ''
    if b == 7:
        return ' with v=7' if form % 2 == 0 else tbl([('v', '7')])
    return (' with v=7' + tbl([('u', '1')])) if form % 2 == 0 else tbl([('v', '7'), ('u', '1')])


def step_text(st, names):
    k, a, b, n = st['kind'], st['a'], st['b'], st['n']
    form = a + b + len(names)
    if k == 'send':
        return 'I send event e%d' % a + par_text(b, form)
    if k == 'sendl':
        return 'I send event e%d with v=%s' % (a, [0] * b)
    if k in ('w_eq', 'w_neq'):
        return 'variable w %s %s' % ('equals' if k == 'w_eq' else 'does not equal', [0] * a)
    if k == 'wait':
        return 'I wait %d second%s' % (a, '' if a == 1 and (a + b + n) % 2 else 's')
    if k == 'nothing':
        return 'I do nothing'
    if k == 'repeat':
        return 'I repeat "I send event e%d" %d times' % (a, n)
    if k == 'reproduce':
        return 'I reproduce "library"'
    if k in ('entered', 'exited', 'active'):
        return 'state %s is %s' % (names[a], k)
    if k in ('not_entered', 'not_exited', 'not_active'):
        return 'state %s is not %s' % (names[a], k[4:])
    if k == 'fired':
        return 'event e%d is fired' % a + par_text(b, form + 1)
    if k == 'not_fired':
        return 'event e%d is not fired' % a
    if k == 'no_event':
        return 'no event is fired'
    if k == 'var_eq':
        return 'variable x equals %d' % a
    if k == 'var_neq':
        return 'variable x does not equal %d' % a
    if k == 'expr_holds':
        return 'expression "x == %d" holds' % a          # documented spelling (docs/behavior.rst)
    if k == 'expr_not_holds':
        return 'expression "x == %d" does not hold' % a
    if k == 'final':
        return 'statechart is in a final configuration'
    if k == 'not_final':
        return 'statechart is not in a final configuration'
    raise ValueError(k)


def run_chart(args):
    """All scenarios of one chart through one execute_bdd call.  Returns {scenario id: [status, ...]}."""
    ci, c, scen = args
    from sismic.bdd import execute_bdd
    sc, names = build_plain(c)
    lines = ['Feature: generated', '', '  Scenario: library', '    Given I send event e1', '    When I wait 1 seconds',
             '    Given I send event e2 with v=7', '    Then statechart is not in a final configuration']
    for sid, hist in scen:
        lines.append('')
        lines.append('  Scenario: s%d' % sid)
        for st in hist:
            lines.append('    %s %s' % (st['kw'].capitalize(), step_text(st, names)))
    d = tempfile.mkdtemp(prefix='bdd_', dir=os.path.join(tlc.VERIF, '.work'))
    fpath = os.path.join(d, 'gen.feature')
    out = os.path.join(d, 'out.json')
    with open(fpath, 'w') as f:
        f.write('\n'.join(lines) + '\n')
    import io
    import contextlib
    buf = io.StringIO()
    with contextlib.redirect_stdout(buf), contextlib.redirect_stderr(buf):
        execute_bdd(sc, [fpath], behave_parameters=['-f', 'json', '-o', out, '--no-summary', '-f', 'null'])
    res = {}
    data = json.load(open(out))
    for feat in data:
        for el in feat.get('elements', []):
            if el.get('type') != 'scenario' or el['name'] == 'library':
                continue
            sid = int(el['name'][1:])
            res[sid] = [(s.get('result') or {}).get('status', 'none') for s in el['steps']]
    import shutil
    shutil.rmtree(d, ignore_errors=True)
    return ci, res, '\n'.join(lines[:12])


def main(prop, tier, seed, replay_path=None):
    t0 = time.time()
    quick = tier == 'quick'
    rng = random.Random(seed * 53 + 19)
    if replay_path:
        doc = json.load(open(replay_path if os.path.isabs(replay_path) else os.path.join(tlc.VERIF, replay_path)))
        charts = [doc['chart']]
        scen = {1: [(1, doc['hist'])]}
        mc = dict(distinct=1, generated=1, completed=True, cmd='')
    else:
        charts = family_bdd(rng, 4 if quick else 6)
        d = tlc.workdir('C19_bdd')
        with open(os.path.join(d, 'ChartsData.tla'), 'w') as f:
            f.write(gc.tla_charts_module('ChartsData', charts))
        tlc.write_mc(d, 'BddMC', dict(MaxSteps=3 if quick else 4, EmitEdges=True, Xs={0, 1, 2}), view='View',
                     action_constraints=['Emit'], invariants=['Complementary'])
        mc = tlc.run(d, timeout=3000, heap='12g')
        if mc['error'] or mc['violated']:
            print('MACHINERY-FAILURE property=C19: design check of Bdd.tla failed\n' + (mc['error'] or mc['out'][-2500:]))
            return 2
        scen = {}
        sid = 0
        for j in mc['json']:
            if 'hist' in j:
                h = j['hist'] if isinstance(j['hist'], list) else []
                if not h or h[-1]['kw'] != 'then':
                    continue                      # only scenarios that end with an assertion
                sid += 1
                scen.setdefault(j['ci'], []).append((sid, h))
        cap = 36000 if quick else 90000        # bound the work: a seeded sample of the enumerated scenarios
        tot = sum(len(v) for v in scen.values())
        if tot > cap:
            for ci in scen:
                scen[ci] = rng.sample(scen[ci], max(1, len(scen[ci]) * cap // tot))
        # seeded random longer scenarios (the model decides them in BddTrace.tla)
        for ci in range(1, len(charts) + 1):
            c = charts[ci - 1]
            for _ in range(200 if quick else 1500):
                h = []
                for _ in range(rng.randint(3, 7)):
                    r_ = rng.random()
                    if r_ < 0.55 or not h:
                        kw = rng.choice(['given', 'when', 'when'])
                        k = rng.choice(['send', 'send', 'send', 'wait', 'nothing', 'nothing', 'repeat', 'reproduce', 'sendl'])
                        if k == 'sendl':
                            h.append(dict(kw=kw, kind='sendl', a=rng.choice(c['events']), b=rng.choice([0, 0, 1]), n=0))
                        elif k == 'send':
                            h.append(dict(kw=kw, kind='send', a=rng.choice(c['events']), b=rng.choice([0, 7, 8]), n=0))
                        elif k == 'wait':
                            h.append(dict(kw=kw, kind='wait', a=rng.choice([1, 2]), b=0, n=0))
                        elif k in ('nothing', 'reproduce'):
                            h.append(dict(kw=kw, kind=k, a=0, b=0, n=0))
                        else:
                            h.append(dict(kw=kw, kind='repeat', a=rng.choice(c['events']), b=0, n=2))
                    else:
                        k = rng.choice(['entered', 'not_entered', 'exited', 'not_exited', 'active', 'not_active', 'fired',
                                        'fired', 'not_fired', 'no_event', 'var_eq', 'var_neq', 'expr_holds',
                                        'expr_not_holds', 'final', 'not_final', 'w_eq', 'w_neq'])
                        if k in ('w_eq', 'w_neq'):
                            h.append(dict(kw='then', kind=k, a=rng.choice([0, 0, 1, 2]), b=0, n=0))
                        elif k in ('entered', 'not_entered', 'exited', 'not_exited', 'active', 'not_active'):
                            h.append(dict(kw='then', kind=k, a=rng.randint(1, c['n']), b=0, n=0))
                        elif k == 'fired':
                            h.append(dict(kw='then', kind=k, a=rng.choice(c['events']), b=rng.choice([0, 7, 7, 8, 8]), n=0))
                        elif k == 'not_fired':
                            h.append(dict(kw='then', kind=k, a=rng.choice(c['events']), b=0, n=0))
                        elif k in ('var_eq', 'var_neq', 'expr_holds', 'expr_not_holds'):
                            h.append(dict(kw='then', kind=k, a=rng.choice([0, 1, 2, 3]), b=0, n=0))
                        else:
                            h.append(dict(kw='then', kind=k, a=0, b=0, n=0))
                if any(x['kw'] == 'then' for x in h):
                    sid += 1
                    scen.setdefault(ci, []).append((sid, h))
        # a scenario whose first then has no when before it (documented error)
        for ci in range(1, len(charts) + 1):
            sid += 1
            scen.setdefault(ci, []).append((sid, [dict(kw='given', kind='nothing', a=0, b=0, n=0),
                                                  dict(kw='then', kind='not_final', a=0, b=0, n=0)]))
    jobs = []
    for ci, lst in scen.items():
        for k in range(0, len(lst), 400):
            jobs.append((ci, charts[ci - 1], lst[k:k + 400]))
    with multiprocessing.Pool(16) as pool:
        res = pool.map(run_chart, jobs)
    status = {}
    sample_feature = res[0][2] if res else ''
    for ci, r, _ in res:
        status.update(r)
    traces = []
    byid = {}
    for ci, lst in scen.items():
        for sid, h in lst:
            st = status.get(sid)
            if st is None:
                print('MACHINERY-FAILURE property=C19: behave reported nothing for scenario %d' % sid)
                return 2
            steps = []
            for s, stt in zip(h, st):
                if stt in ('skipped', 'untested', 'none'):
                    break
                steps.append(dict(s, status=stt))
            traces.append({'id': sid, 'ci': ci, 'steps': steps})
            byid[sid] = (ci, h, st)
    reports, tr = {}, {'error': None, 'cmd': ''}
    for bi in range(0, len(traces), 40000):
        d2 = tlc.workdir('C19_bdd_tr%d' % (bi // 40000))
        with open(os.path.join(d2, 'ChartsData.tla'), 'w') as f:
            f.write(gc.tla_charts_module('ChartsData', charts))
        path = os.path.join(d2, 'traces.json')
        json.dump(traces[bi:bi + 40000], open(path, 'w'))
        tlc.write_mc(d2, 'BddTrace', {}, spec='TSpec', invariants=['Report'])
        tr = tlc.run(d2, env={'TRACE_FILE': path}, timeout=3000, heap='8g')
        reports.update({j['id']: j for j in tr['json'] if isinstance(j, dict) and 'id' in j})
        if tr['error']:
            break
    if tr['error'] or any(t['id'] not in reports for t in traces):
        print('MACHINERY-FAILURE property=C19: trace check failed or incomplete\n' + str(tr['error']))
        return 2
    nviol, out = 0, []
    for t in traces:
        bad = reports[t['id']]['bad']
        bad = [] if isinstance(bad, dict) else bad
        if bad:
            nviol += 1
            if nviol <= 5:
                ci, h, st = byid[t['id']]
                pth = evd.write_replay('C19', nviol, {'property': 'C19', 'chart': charts[ci - 1], 'hist': h,
                                                      'behave_status': st, 'failing': bad})
                out.append('VIOLATION property=C19 replay=%s' % pth)
                out.append('  %s: last step %s status=%s' % (bad, h[bad[0][0] - 1], st[bad[0][0] - 1]))
    # the sismic.testing predicates, directly on macro steps of the interpreter engine (clause C19.testing)
    sout = None
    if not replay_path:
        import interp_check
        stage = dict(name='testing', charts=gc.family_f3(rng, 10 if quick else 60, nmin=3, nmax=6, tmin=3, tmax=7, nev=2, max_oracle=1),
                     consts=dict(MaxQ=2, MaxLevel=5 if quick else 6, Params={0, 7}, ExecMany=True),
                     variants=[dict(variant='api', twin=dict(rel='execute', kw=dict(manual_execute=True)))],
                     random=dict(count=150 if quick else 1500, length=14, params=(0, 7), pexec=0.6,
                                 family=lambda r, kk: gc.family_f3(r, kk, nmin=5, nmax=9)))
        try:
            sout, viol, allcharts, samples, mc2 = interp_check.run_stage('C19', tier, seed, stage, rng)
            sout.pop('cross_samples', None)
        except interp_check.Machinery as e:
            print('MACHINERY-FAILURE property=C19: %s' % e)
            return 2
        for (t, mine, r) in viol:
            nviol += 1
            if nviol <= 8:
                pth = evd.write_replay('C19', 100 + nviol, {'property': 'C19', 'chart': allcharts[t['ci'] - 1], 'hist': t['hist'],
                                                            'kw': t['kw'], 'failing': mine, 'lines': t['lines']})
                out.append('VIOLATION property=C19 replay=%s' % pth)
                out.append('  clauses=%s (sismic.testing predicates vs the returned MacroStep)' % sorted({b[2] for b in mine}))
    for ln in out:
        print(ln)
    if replay_path:
        return 1 if nviol else 0
    cov = dict(states=mc['distinct'], transitions=mc['generated'], traces_validated_against_impl=len(traces),
               samples=[{'feature_head': sample_feature}, {'scenario': traces[-1]}],
               exhaustive=bool(mc['completed']), charts=len(charts), scenarios=len(traces),
               max_steps=3 if quick else 4, mc_cmd=mc['cmd'], trace_cmd=tr['cmd'], testing_stage=sout,
               rule='BddMC.tla: every scenario of up to max_steps predefined steps (documented spelling) over the chart '
                    'family that ends with a then step; each is run through the real execute_bdd/behave; TLC (BddTrace.tla) '
                    'decides for every executed step whether "passed" agrees with the documented meaning')
    evd.write_evidence('C19', tier, seed, cov, time.time() - t0, nviol,
                       assumptions=["behave's JSON report is trusted for the per-step status"])
    print('C19 %s: %d states, %d scenarios run through behave, %d violations, %.1fs' % (
        tier, mc['distinct'], len(traces), nviol, time.time() - t0))
    return 1 if nviol else 0
