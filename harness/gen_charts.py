"""Abstract statechart families (DESIGN.md 2.2 / 4.8).

An abstract chart is a plain dict (JSON-able):
  n, kind[1..n], parent[1..n] (0 = root), initial[1..n], memory[1..n],
  trans: list of {src,tgt(0=internal),ev(0=eventless),prio,gk,ga,act,pre,post,inv}
  entry/exit: code descriptor per state, spre/spost/sinv: number of contract conditions per state
  events: list of event ids (ints)
States are the integers 1..n and *name order = integer order* (realize.py picks names accordingly).
Lists are 0-based in Python/JSON and 1-based in TLA+ (index i-1 <-> state i).
"""
import itertools
import json
import random

TRANS_KINDS = ('basic', 'compound', 'orthogonal')
COMPOSITE = ('compound', 'orthogonal')
HISTORY = ('shallow', 'deep')

D0 = {'incx': 0, 'sends': [], 'nots': [], 'tick': 0, 'nf': 0}


def desc(incx=0, sends=(), nots=(), tick=0, nf=0):
    """nf = 1: the fragment calls notify() before send() (the other order otherwise)."""
    return {'incx': incx, 'sends': [dict(ev=e, dl=d, par=p) for (e, d, p) in sends],
            'nots': list(nots), 'tick': tick, 'nf': nf}


def mk_trans(src, tgt, ev=0, prio=0, gk='none', ga=0, act=None, pre=0, post=0, inv=0):
    return {'src': src, 'tgt': tgt, 'ev': ev, 'prio': prio, 'gk': gk, 'ga': ga,
            'act': act if act is not None else dict(D0), 'pre': pre, 'post': post, 'inv': inv}


class Chart(dict):
    pass


def new_chart(kind, parent, initial, memory, trans=(), events=None):
    n = len(kind)
    c = Chart(n=n, kind=list(kind), parent=list(parent), initial=list(initial), memory=list(memory),
              trans=[dict(t) for t in trans],
              entry=[dict(D0) for _ in range(n)], exit=[dict(D0) for _ in range(n)],
              spre=[0] * n, spost=[0] * n, sinv=[0] * n)
    evs = sorted({t['ev'] for t in c['trans'] if t['ev']})
    c['events'] = list(events) if events is not None else evs + [(max(evs) if evs else 0) + 1]
    return c


# ---------------------------------------------------------------- structure helpers (python side)

def children(c, s):
    return [i + 1 for i in range(c['n']) if c['parent'][i] == s]


def ancestors(c, s):
    out = []
    p = c['parent'][s - 1]
    while p:
        out.append(p)
        p = c['parent'][p - 1]
    return out


def descendants(c, s):
    return [t for t in range(1, c['n'] + 1) if s in ancestors(c, t)]


def depth(c, s):
    return len(ancestors(c, s)) + 1


def root(c):
    return c['parent'].index(0) + 1


def lca(c, a, b):
    bb = ancestors(c, b)
    for s in ancestors(c, a):
        if s in bb:
            return s
    return 0


def child_toward(c, l, s):
    last = s
    for a in ancestors(c, s):
        if a == l:
            break
        last = a
    return last


def wf_transition(c, src, tgt):
    """W6/W7 and the basic kind rules for an external transition src -> tgt."""
    k = c['kind']
    if k[src - 1] not in TRANS_KINDS:
        return False
    if tgt == 0:
        return True
    if k[tgt - 1] in HISTORY:
        p = c['parent'][tgt - 1]
        if src == p or p in ancestors(c, src):
            return False
    l = lca(c, src, tgt)
    if l and k[l - 1] == 'orthogonal':
        ch = child_toward(c, l, src)
        if not (tgt == ch or ch in ancestors(c, tgt)):
            return False
    return True


def wf(c, need_initial=True):
    n, k, par = c['n'], c['kind'], c['parent']
    if par.count(0) != 1:
        return False
    r = root(c)
    if k[r - 1] not in TRANS_KINDS:
        return False
    for s in range(1, n + 1):
        ch = children(c, s)
        ks = k[s - 1]
        if ks in COMPOSITE and not ch:
            return False
        if ks not in COMPOSITE and ch:
            return False
        if ks == 'compound':
            if c['initial'][s - 1] not in ch and (need_initial or c['initial'][s - 1] != 0):
                return False
        elif c['initial'][s - 1] != 0:
            return False
        if ks == 'orthogonal' and any(k[x - 1] not in TRANS_KINDS for x in ch):
            return False
        if ks in HISTORY:
            p = par[s - 1]
            if p == 0 or k[p - 1] != 'compound':
                return False
            m = c['memory'][s - 1]
            if m == s or m not in children(c, p) or k[m - 1] in HISTORY:
                return False
        elif c['memory'][s - 1] != 0:
            return False
        if ks == 'final' and (par[s - 1] == 0 or k[par[s - 1] - 1] != 'compound'):
            return False
    return all(wf_transition(c, t['src'], t['tgt']) for t in c['trans'])


# ---------------------------------------------------------------- F1: complete-transition skeletons

def skeletons(n):
    """Every WF skeleton with n states and parent(i) < i labelling (no transitions)."""
    for parent in itertools.product(*[range(1, i) for i in range(2, n + 1)]):
        parent = (0,) + parent
        kids = {s: [i + 1 for i in range(n) if parent[i] == s] for s in range(1, n + 1)}
        choices = []
        for s in range(1, n + 1):
            if kids[s]:
                choices.append(COMPOSITE)
            elif s == 1:
                choices.append(('basic',))
            else:
                choices.append(('basic', 'final', 'shallow', 'deep'))
        for kind in itertools.product(*choices):
            ok = True
            for s in range(2, n + 1):
                pk = kind[parent[s - 1] - 1]
                if kind[s - 1] in ('final', 'shallow', 'deep') and pk != 'compound':
                    ok = False
                    break
            if not ok:
                continue
            # initial / memory choices
            slots = []
            for s in range(1, n + 1):
                if kind[s - 1] == 'compound':
                    slots.append([('i', s, x) for x in kids[s]])
                elif kind[s - 1] in HISTORY:
                    sib = [x for x in kids[parent[s - 1]] if x != s and kind[x - 1] not in HISTORY]
                    slots.append([('m', s, x) for x in sib])
            if any(not sl for sl in slots):
                continue
            for pick in itertools.product(*slots):
                initial = [0] * n
                memory = [0] * n
                for (w, s, x) in pick:
                    (initial if w == 'i' else memory)[s - 1] = x
                yield kind, parent, initial, memory


def complete(kind, parent, initial, memory, internal=True):
    """Skeleton + every WF external transition and one internal transition per source, each its own event."""
    c = new_chart(kind, parent, initial, memory)
    n = c['n']
    ev = 0
    trans = []
    for s in range(1, n + 1):
        if kind[s - 1] not in TRANS_KINDS:
            continue
        for t in range(1, n + 1):
            if wf_transition(c, s, t):
                ev += 1
                trans.append(mk_trans(s, t, ev))
        if internal:
            ev += 1
            trans.append(mk_trans(s, 0, ev))
    c['trans'] = trans
    c['events'] = list(range(1, ev + 2))
    return c


def family_f1(nmax, nmin=1):
    out = []
    for n in range(nmin, nmax + 1):
        for sk in skeletons(n):
            out.append(complete(*sk))
    return out


def count_skeletons(n):
    return sum(1 for _ in skeletons(n))


# ---------------------------------------------------------------- F2: selection bundles

def family_f2(rng, count, nmax=4, max_shared=3, max_eventless=2, prios=(-1, 0, 1, 2, 10, -2, 9), big=0.35, orth=0.5):
    """Skeletons with n<=nmax; on each transition-capable state up to `max_shared` transitions on the
    one shared event 1 and up to `max_eventless` eventless ones, random priorities, oracle guards.
    Eventless transitions are always oracle-guarded (otherwise they loop forever)."""
    sks = [sk for n in range(1, nmax + 1) for sk in skeletons(n)]
    osks = [sk for sk in sks if 'orthogonal' in sk[0]]
    out = []
    tries = 0
    while len(out) < count and tries < count * 50:
        tries += 1
        isbig = rng.random() < big
        if isbig:
            # larger charts with nested orthogonal states (three or more transitions at once)
            c = random_tree(rng, rng.randint(5, 8), allow_history=rng.random() < 0.2,
                            allow_final=False, p_orth=0.6)
            kind = c['kind']
        else:
            kind, parent, initial, memory = rng.choice(osks if rng.random() < orth else sks)
            c = new_chart(kind, parent, initial, memory)
        n = c['n']
        trans = []
        g = 0
        pg = 0.35 if isbig else 0.8
        for s in range(1, n + 1):
            if kind[s - 1] not in TRANS_KINDS:
                continue
            for (evid, mx) in ((1, max_shared), (0, max_eventless)):
                k = rng.choice([0, 1, 1, 2, 3][:mx + 2]) if mx else 0
                k = min(k, mx)
                if isbig:
                    k = min(k, 2) if evid else (1 if rng.random() < 0.15 else 0)
                for _ in range(k):
                    tg = rng.choice([0] + [t for t in range(1, n + 1) if wf_transition(c, s, t)])
                    guarded = evid == 0 or rng.random() < pg
                    if guarded:
                        g += 1
                    trans.append(mk_trans(s, tg, evid, rng.choice(prios), 'oracle' if guarded else 'none'))
        if g > 8 or len(trans) < 2:
            continue
        plain = [t for t in trans if t['gk'] == 'none']
        if plain and rng.random() < 0.12:       # the same transition declared twice (equal as objects)
            trans.insert(rng.randrange(len(trans) + 1), dict(rng.choice(plain)))
        c['trans'] = trans
        c['events'] = [1, 2]
        assert wf(c)
        out.append(c)
    return out


def family_nested(rng, count, max_oracle=5):
    """Nested orthogonal states with one shared event: three or more transitions enabled at once, in regions of
    different orthogonal states (pairwise checks, orders, nested conflicts).  Half of the charts wrap the
    orthogonal state in a compound root with an outside state (transitions from outside into deeply nested
    regions leave several orthogonal states incomplete at once); some states own two transitions on the event."""
    out = []
    while len(out) < count:
        wrap = rng.random() < 0.5
        kind, parent = [], []

        def add(k, p):
            kind.append(k)
            parent.append(p)
            return len(kind)

        if wrap:
            r0 = add('compound', 0)
            outside = add('basic', r0)
            top = add('orthogonal', r0)
        else:
            top = add('orthogonal', 0)
        regions = rng.randint(2, 3)
        for _ in range(regions):
            r = rng.random()
            if r < 0.5:
                q = add('orthogonal', top)
                for _ in range(rng.randint(2, 3)):
                    if rng.random() < 0.25:
                        cc = add('compound', q)
                        add('basic', cc)
                    else:
                        add('basic', q)
            elif r < 0.85:
                q = add('compound', top)
                for _ in range(rng.randint(1, 2)):
                    add('basic', q)
            else:
                add('basic', top)
        n = len(kind)
        if n > 11:
            continue
        initial = [0] * n
        for s in range(1, n + 1):
            if kind[s - 1] == 'compound':
                initial[s - 1] = rng.choice([i + 1 for i in range(n) if parent[i] == s])
        perm = list(range(1, n + 1))
        rng.shuffle(perm)
        m = {old: new for old, new in zip(range(1, n + 1), perm)}
        m[0] = 0
        k2, p2, i2 = [None] * n, [0] * n, [0] * n
        for s in range(1, n + 1):
            k2[m[s] - 1] = kind[s - 1]
            p2[m[s] - 1] = m[parent[s - 1]]
            i2[m[s] - 1] = m[initial[s - 1]]
        c = new_chart(k2, p2, i2, [0] * n)
        trans = []
        g = 0
        for s in range(1, n + 1):
            if c['kind'][s - 1] not in TRANS_KINDS:
                continue
            leaf = not children(c, s)
            for rep in range(2):
                if rep == 1 and rng.random() > 0.25:
                    break
                if rng.random() < (0.85 if leaf else 0.25):
                    tg = rng.choice([0, 0] + [t for t in range(1, n + 1) if wf_transition(c, s, t)])
                    guarded = rng.random() < 0.3 and g < max_oracle
                    g += guarded
                    trans.append(mk_trans(s, tg, 1, rng.choice([0, 0, 1]), 'oracle' if guarded else 'none'))
        if wrap:
            o_, t_ = m[2], m[3]
            deep = [x for x in range(1, n + 1) if depth(c, x) >= 4 and wf_transition(c, o_, x)]
            for x in rng.sample(deep, min(2, len(deep))):
                trans.append(mk_trans(o_, x, 2))
            trans.append(mk_trans(t_, o_, 3))
            trans.append(mk_trans(o_, t_, 3))
        if len(trans) < 3:
            continue
        seen, tr2 = set(), []
        for t in trans:
            k = (t['src'], t['tgt'], t['ev'], t['prio'], t['gk'])
            if k not in seen:
                seen.add(k)
                tr2.append(t)
        c['trans'] = tr2
        c['events'] = [1, 2, 3, 4]
        assert wf(c), c
        out.append(c)
    return out


def family_fanout(rng, count, max_oracle=2):
    """Concurrent transitions that each stay inside their own region of one orthogonal state and enter, from
    outside, orthogonal states nested in that region (targets: basic states deep inside them).  Several
    transitions fire in one macro step without conflict, and all but the last leave an incomplete orthogonal
    state behind that must be completed before the next transition starts."""
    out = []
    while len(out) < count:
        kind, parent = [], []

        def add(k, p):
            kind.append(k)
            parent.append(p)
            return len(kind)

        wrap = rng.random() < 0.3
        if wrap:
            r0 = add('compound', 0)
            add('basic', r0)
            top = add('orthogonal', r0)
        else:
            top = add('orthogonal', 0)
        regs, ys = [], {}
        for _ in range(rng.randint(2, 3)):
            reg = add('compound', top)
            plain = [add('basic', reg) for _ in range(rng.randint(1, 2))]
            deep, groups, y = [], [], 0
            if rng.random() < 0.75:
                y = add('orthogonal', reg)
                for _ in range(2):
                    if rng.random() < 0.6:
                        cc = add('compound', y)
                        # sometimes a (nested) final state: entering it must not end the completion of the other regions
                        grp = [add('final' if rng.random() < 0.25 else 'basic', cc)]
                        if rng.random() < 0.7:
                            grp.append(add('basic', cc))
                    else:
                        grp = [add('basic', y)]
                    groups.append(grp)
                    deep += grp
            ys[reg] = (y, groups)
            regs.append((reg, plain, deep))
        n = len(kind)
        if n > 14 or not any(d for (_, _, d) in regs):
            continue
        initial = [0] * n
        for (reg, plain, deep) in regs:
            initial[reg - 1] = ys[reg][0] if (ys[reg][0] and rng.random() < 0.5) else plain[0]
        for s in range(1, n + 1):
            if kind[s - 1] == 'compound' and not initial[s - 1]:
                initial[s - 1] = rng.choice([i + 1 for i in range(n) if parent[i] == s])
        perm = list(range(1, n + 1))
        rng.shuffle(perm)
        m = dict(zip(range(1, n + 1), perm))
        m[0] = 0
        k2, p2, i2 = [None] * n, [0] * n, [0] * n
        for s in range(1, n + 1):
            k2[m[s] - 1] = kind[s - 1]
            p2[m[s] - 1] = m[parent[s - 1]]
            i2[m[s] - 1] = m[initial[s - 1]]
        c = new_chart(k2, p2, i2, [0] * n)
        trans, g = [], 0
        for (reg, plain, deep) in regs:
            inside = plain + deep
            for s in plain:
                tgs = deep if deep and rng.random() < 0.8 else inside
                guarded = rng.random() < 0.2 and g < max_oracle
                g += guarded
                trans.append(mk_trans(m[s], m[rng.choice(tgs)], rng.choice([1, 1, 2, 2]), 0, 'oracle' if guarded else 'none',
                                      act=desc(incx=rng.choice([0, 1]))))
            for grp in ys[reg][1]:          # moves inside one region of the nested orthogonal state
                if len(grp) == 2 and kind[grp[0] - 1] == 'final':
                    if rng.random() < 0.7:
                        trans.append(mk_trans(m[grp[1]], m[grp[0]], rng.choice([1, 2])))
                    continue
                if len(grp) == 2 and rng.random() < 0.7:
                    trans.append(mk_trans(m[grp[0]], m[grp[1]], 2))
                    trans.append(mk_trans(m[grp[1]], m[grp[0]], rng.choice([1, 2])))
            for s in deep:
                if kind[s - 1] == 'final':
                    continue
                if rng.random() < 0.6:
                    trans.append(mk_trans(m[s], m[rng.choice(plain)], 2))
                if rng.random() < 0.5:      # also: one region leaves the nested orthogonal state while its sibling moves
                    trans.append(mk_trans(m[s], m[rng.choice(inside)], rng.choice([1, 2, 2])))
        c['trans'] = [t for i, t in enumerate(trans) if t not in trans[:i]]
        for s in range(1, n + 1):
            if rng.random() < 0.5:
                c['entry'][s - 1] = desc(incx=rng.choice([0, 1]))
        c['events'] = [1, 2, 3]
        if wf(c):
            out.append(c)
    return out


def family_sametext(rng, count):
    """Charts in which several transitions carry the very same guard text (`after(1)` / `idle(1)`, untraced) although
    their values differ (the sources were entered / fired at different times) and are needed in one selection."""
    out = []
    while len(out) < count:
        for c in family_f3(rng, 8, nmin=4, nmax=6, tmin=5, tmax=8, nev=2, max_oracle=1, time_guards=True, sends=False):
            for t in c['trans']:
                if t['gk'] in ('after', 'idle', 'afterp', 'idlep'):
                    t['gk'], t['ga'] = t['gk'][:5].rstrip('p') + 'p', 1
            by = {}
            for t in c['trans']:
                if t['gk'] in ('afterp', 'idlep'):
                    by.setdefault(t['gk'], set()).add(t['src'])
            if any(len(v) >= 2 for v in by.values()) and any(k == 'orthogonal' for k in c['kind']) and wf(c):
                out.append(c)
    return out[:count]


def family_idle(rng, count, contracts=False):
    """idle() / after() measured from something other than the last entry: a state with an internal transition (fires
    without re-entering its source) and idle / after guarded transitions out of it and out of its ancestors."""
    out = []
    while len(out) < count:
        c = random_tree(rng, rng.randint(2, 5), allow_history=False, allow_final=False, p_orth=0.3)
        n = c['n']
        srcs = [s for s in range(1, n + 1) if c['kind'][s - 1] in TRANS_KINDS]
        trans = []
        for s in rng.sample(srcs, min(len(srcs), rng.randint(1, 2))):
            trans.append(mk_trans(s, 0, 1, 0, 'none', 0, desc(incx=1)))
            tgs = [t for t in range(1, n + 1) if wf_transition(c, s, t)]
            for gk in rng.sample(['idle', 'after', 'idlep', 'afterp'], 2):
                trans.append(mk_trans(s, rng.choice(tgs), rng.choice([0, 2]), 0, gk, rng.choice([1, 2])))
        c['trans'] = [t for i, t in enumerate(trans) if t not in trans[:i]]
        if contracts:
            for t in c['trans']:
                if rng.random() < 0.5:
                    t['pre'], t['post'], t['inv'] = rng.choice([0, 1]), rng.choice([0, 1]), rng.choice([0, 1])
            for s in range(1, n + 1):
                if rng.random() < 0.4:
                    c['spre'][s - 1], c['spost'][s - 1], c['sinv'][s - 1] = rng.choice([0, 1]), rng.choice([0, 1]), rng.choice([0, 1])
        c['events'] = [1, 2]
        if wf(c):
            out.append(c)
    return out


def family_terminating(rng, count):
    """Small charts that reach a final configuration (a top-level final state) after one or two events: what an
    interpreter does once it is final (time, meta-events, queues) is behaviour too."""
    out = []
    while len(out) < count:
        kind = ['compound', 'basic', 'final'] + (['basic'] if rng.random() < 0.5 else [])
        parent = [0, 1, 1] + ([1] if len(kind) == 4 else [])
        c = new_chart(kind, parent, [2] + [0] * (len(kind) - 1), [0] * len(kind))
        tr = [mk_trans(2, 3, 1, 0, 'none', 0, desc(incx=rng.choice([0, 1])))]
        if len(kind) == 4:
            e = rng.choice([1, 2])
            tr += [mk_trans(2, 4, 2), mk_trans(4, 3, e), mk_trans(4, 2, 3 - e)]
        if rng.random() < 0.5:
            tr.append(mk_trans(1, 0, 2, 0, 'none', 0, desc(incx=1)))        # an internal transition of the root
        c['trans'] = [t for i, t in enumerate(tr) if t not in tr[:i]]
        c['entry'][2] = desc(incx=1)
        c['events'] = [1, 2]
        if wf(c):
            out.append(c)
    return out


def family_twostep(rng, count):
    """The same pair of source states (in two regions) fires twice: first both transitions stay inside their regions
    (internal / self-loop, event 1), then other transitions of the same two states fire (event 2), one of which may
    leave the orthogonal state: whatever was learnt about the pair in the first step says nothing about the second."""
    out = []
    while len(out) < count:
        kind = ['compound', 'basic', 'orthogonal', 'compound', 'basic', 'basic', 'compound', 'basic', 'basic']
        #        1 root      2 out    3 O           4 r1        5 X      6 X2     7 r2        8 Y      9 Y2
        parent = [0, 1, 1, 3, 4, 4, 3, 7, 7]
        initial = [3, 0, 0, 5, 0, 0, 8, 0, 0]
        if rng.random() < 0.4:
            kind.append('basic')
            parent.append(3)
            initial.append(0)
        n = len(kind)
        stay = lambda s: rng.choice([0, s])
        pairs = [(5, stay(5), 1), (8, stay(8), 1),
                 (5, rng.choice([2, 6, 6, 3]), 2), (8, rng.choice([9, 9, 2, 1]), 2),
                 (6, 5, 3), (9, 8, 3), (2, 3, 3)]
        perm = list(range(1, n + 1))
        rng.shuffle(perm)
        m = dict(zip(range(1, n + 1), perm))
        m[0] = 0
        k2, p2, i2 = [None] * n, [0] * n, [0] * n
        for s in range(1, n + 1):
            k2[m[s] - 1] = kind[s - 1]
            p2[m[s] - 1] = m[parent[s - 1]]
            i2[m[s] - 1] = m[initial[s - 1]]
        c = new_chart(k2, p2, i2, [0] * n)
        c['trans'] = [mk_trans(m[a], m[b], e, 0, 'none', 0, desc(incx=rng.choice([0, 1]))) for (a, b, e) in pairs
                      if wf_transition(c, m[a], m[b])]
        c['events'] = [1, 2, 3]
        if wf(c) and len(c['trans']) >= 5:
            out.append(c)
    return out


def family_hist(rng, count, nmin=6, nmax=9, extra=6):
    """Larger charts with history states below orthogonal/compound ancestors; each transition has its
    own event.  Transitions into every history state from outside, out of its ancestors, and random ones."""
    out = []
    while len(out) < count:
        c = random_tree(rng, rng.randint(nmin, nmax), allow_history=True, allow_final=rng.random() < 0.3,
                        p_orth=0.45)
        n = c['n']
        hs = [s for s in range(1, n + 1) if c['kind'][s - 1] in HISTORY]
        if not hs:
            continue
        pairs = []
        for h in hs:
            srcs = [s for s in range(1, n + 1) if wf_transition(c, s, h)]
            rng.shuffle(srcs)
            pairs += [(s, h) for s in srcs[:2]]
            p = c['parent'][h - 1]
            for a in [p] + ancestors(c, p):
                tg = [t for t in range(1, n + 1) if wf_transition(c, a, t) and t not in descendants(c, a)]
                if tg and rng.random() < 0.6:
                    pairs.append((a, rng.choice(tg)))
            inner = [s for s in descendants(c, p) if c['kind'][s - 1] in TRANS_KINDS]
            for s in inner[:3]:
                tg = [t for t in range(1, n + 1) if wf_transition(c, s, t) and t != h]
                if tg:
                    pairs.append((s, rng.choice(tg)))
        srcs = [s for s in range(1, n + 1) if c['kind'][s - 1] in TRANS_KINDS]
        for _ in range(extra):
            s = rng.choice(srcs)
            tg = [t for t in range(1, n + 1) if wf_transition(c, s, t)]
            pairs.append((s, rng.choice(tg)))
        pairs = list(dict.fromkeys(pairs))[:14]
        c['trans'] = [mk_trans(s, t, i + 1) for i, (s, t) in enumerate(pairs)]
        c['events'] = list(range(1, len(pairs) + 2))
        if wf(c):
            out.append(c)
    return out


def family_hist_inside(rng, count):
    """family_hist charts with, in addition, transitions into a history state from INSIDE its parent (beyond the
    quantifier of C06, which has history states entered from outside; the statement itself - what was active when the
    parent was last exited - still says what such a transition restores, and the code accepts these charts)."""
    out = []
    for c in family_hist(rng, count, nmin=5, nmax=8, extra=3):
        k = c['kind']
        pairs = []
        for h in [s for s in range(1, c['n'] + 1) if k[s - 1] in HISTORY]:
            p = c['parent'][h - 1]
            if k[p - 1] != 'compound':
                continue
            inner = [s for s in descendants(c, p) if k[s - 1] in TRANS_KINDS]
            rng.shuffle(inner)
            pairs += [(s, h) for s in inner[:2]]
        if not pairs:
            continue
        base = len(c['trans'])
        c['trans'] = c['trans'] + [mk_trans(s, t, base + i + 1) for i, (s, t) in enumerate(pairs)]
        c['events'] = list(range(1, len(c['trans']) + 2))
        out.append(c)
    return out


def family_hist_orth(rng, count):
    """History owner nested inside one region of an orthogonal state whose sibling region has (deeper) content:
    root{out, P||{R1{w, T{H, a, b}}, R2{c{c1, c2}, d}}}; H is entered from w (P stays active) and from out;
    random kind of history, names, initial states and transition subset."""
    out = []
    while len(out) < count:
        kind = ['compound', 'basic', 'orthogonal', 'compound', rng.choice(['deep', 'deep', 'shallow']), 'basic', 'basic',
                'compound', 'compound', 'basic', 'basic', 'basic', 'basic', 'compound']
        #        1 root     2 out    3 P           4 T         5 H                                   6 a      7 b
        #        8 R2        9 c        10 c1    11 c2    12 d    13 w     14 R1
        parent = [0, 1, 1, 14, 4, 4, 4, 3, 8, 9, 9, 8, 14, 3]
        initial = [rng.choice([2, 3]), 0, 0, rng.choice([5, 6, 7]), 0, 0, 0, rng.choice([9, 12]), rng.choice([10, 11]),
                   0, 0, 0, 0, rng.choice([13, 4])]
        memory = [0, 0, 0, 0, rng.choice([6, 7]), 0, 0, 0, 0, 0, 0, 0, 0, 0]
        n = len(kind)
        pairs = [(2, 3), (3, 2), (2, 5), (6, 7), (7, 6), (9, 12), (12, 9), (10, 11), (11, 10), (2, 4), (2, 10),
                 (1, 5), (3, 3), (8, 8), (4, 2), (13, 4), (13, 5), (4, 13), (6, 13)]
        rng.shuffle(pairs)
        pairs = list(dict.fromkeys(pairs))
        perm = list(range(1, n + 1))
        rng.shuffle(perm)
        m = {old: new for old, new in zip(range(1, n + 1), perm)}
        m[0] = 0
        k2, p2, i2, m2 = [None] * n, [0] * n, [0] * n, [0] * n
        for s in range(1, n + 1):
            k2[m[s] - 1] = kind[s - 1]
            p2[m[s] - 1] = m[parent[s - 1]]
            i2[m[s] - 1] = m[initial[s - 1]]
            m2[m[s] - 1] = m[memory[s - 1]]
        c = new_chart(k2, p2, i2, m2)
        c['trans'] = [mk_trans(m[a], m[b], i + 1) for i, (a, b) in enumerate(pairs) if wf_transition(c, m[a], m[b])]
        for i, t in enumerate(c['trans']):
            t['ev'] = i + 1
        c['events'] = list(range(1, len(c['trans']) + 2))
        if wf(c):
            out.append(c)
    return out


def family_deep_orth(rng, count):
    """A deep history state whose parent contains an orthogonal state: root{out, T{H*, O||{R1{..}, R2{..}[, R3]}[, e]}}.
    Leaving T while O is active memorises several states of equal depth; H is entered from out (events 1/2 leave and
    come back, 3.. move inside the regions).  The order in which equal-depth states are re-entered is name order."""
    out = []
    while len(out) < count:
        kind, parent = [], []

        def add(k, p):
            kind.append(k)
            parent.append(p)
            return len(kind)

        root = add('compound', 0)
        o_ = add('basic', root)
        T = add('compound', root)
        H = add('deep', T)
        O = add('orthogonal', T)
        extra = add('basic', T) if rng.random() < 0.4 else 0
        leaves, regs = [], []
        for _ in range(rng.randint(2, 3)):
            if rng.random() < 0.75:
                r = add('compound', O)
                leaves.append([add('basic', r) for _ in range(2)])
                regs.append(r)
            else:
                regs.append(add('basic', O))
                leaves.append([])
        n = len(kind)
        initial = [0] * n
        initial[root - 1] = rng.choice([o_, T])
        initial[T - 1] = rng.choice([O, O, H] + ([extra] if extra else []))
        for r, ls in zip(regs, leaves):
            if ls:
                initial[r - 1] = rng.choice(ls)
        memory = [0] * n
        memory[H - 1] = rng.choice([O] + ([extra] if extra else []))
        pairs = [(o_, H, 1), (T, o_, 2), (o_, T, 3)]
        ev = 4
        for ls in leaves:
            if ls:
                pairs.append((ls[0], ls[1], ev))
                pairs.append((ls[1], ls[0], ev))
                if rng.random() < 0.5:
                    pairs.append((ls[1], o_, 2))
        if extra:
            pairs.append((extra, O, ev))
            pairs.append((O, extra, 5))
        perm = list(range(1, n + 1))
        rng.shuffle(perm)
        m = dict(zip(range(1, n + 1), perm))
        m[0] = 0
        k2, p2, i2, m2 = [None] * n, [0] * n, [0] * n, [0] * n
        for s in range(1, n + 1):
            k2[m[s] - 1] = kind[s - 1]
            p2[m[s] - 1] = m[parent[s - 1]]
            i2[m[s] - 1] = m[initial[s - 1]]
            m2[m[s] - 1] = m[memory[s - 1]]
        c = new_chart(k2, p2, i2, m2)
        c['trans'] = [mk_trans(m[a], m[b], e) for (a, b, e) in pairs if wf_transition(c, m[a], m[b])]
        for s in range(1, n + 1):
            c['entry'][s - 1] = desc(incx=rng.choice([0, 1]))
        c['events'] = [1, 2, 3, 4, 5]
        if wf(c):
            out.append(c)
    return out


# ---------------------------------------------------------------- F3: seeded random, richer charts

def random_tree(rng, n, allow_history=True, allow_final=True, p_orth=0.34):
    """Random WF skeleton with n states, parent(i) < i not required: labels are shuffled afterwards."""
    for _ in range(1000):
        parent = [0] + [rng.randint(1, i - 1) for i in range(2, n + 1)]
        kids = {s: [i + 1 for i in range(n) if parent[i] == s] for s in range(1, n + 1)}
        kind = [None] * n
        for s in range(1, n + 1):
            if kids[s]:
                kind[s - 1] = 'orthogonal' if rng.random() < p_orth else 'compound' 
        for s in range(1, n + 1):
            if kind[s - 1] is None:
                pk = kind[parent[s - 1] - 1] if parent[s - 1] else None
                opts = ['basic'] * 4
                if pk == 'compound':
                    if allow_final:
                        opts.append('final')
                    if allow_history:
                        opts += ['shallow', 'deep']
                kind[s - 1] = rng.choice(opts)
        initial = [0] * n
        memory = [0] * n
        ok = True
        for s in range(1, n + 1):
            if kind[s - 1] == 'compound':
                initial[s - 1] = rng.choice(kids[s])
            if kind[s - 1] in HISTORY:
                sib = [x for x in kids[parent[s - 1]] if x != s and kind[x - 1] not in HISTORY]
                if not sib:
                    ok = False
                    break
                memory[s - 1] = rng.choice(sib)
        if not ok:
            continue
        # relabel with a random permutation so that name order is unrelated to the tree shape
        perm = list(range(1, n + 1))
        rng.shuffle(perm)
        m = {old: new for old, new in zip(range(1, n + 1), perm)}
        m[0] = 0
        k2, p2, i2, m2 = [None] * n, [0] * n, [0] * n, [0] * n
        for s in range(1, n + 1):
            k2[m[s] - 1] = kind[s - 1]
            p2[m[s] - 1] = m[parent[s - 1]]
            i2[m[s] - 1] = m[initial[s - 1]]
            m2[m[s] - 1] = m[memory[s - 1]]
        c = new_chart(k2, p2, i2, m2)
        if wf(c):
            return c
    raise RuntimeError('no skeleton')


def family_f3(rng, count, nmin=5, nmax=8, tmin=4, tmax=10, nev=3, time_guards=False, contracts=False,
              sends=True, codes=True, max_oracle=6):
    out = []
    while len(out) < count:
        n = rng.randint(nmin, nmax)
        c = random_tree(rng, n)
        srcs = [s for s in range(1, n + 1) if c['kind'][s - 1] in TRANS_KINDS]
        trans = []
        g = 0
        for _ in range(rng.randint(tmin, tmax)):
            s = rng.choice(srcs)
            tg = rng.choice([0] + [t for t in range(1, n + 1) if wf_transition(c, s, t)] * 2)
            ev = rng.choice([0] + list(range(1, nev + 1)) * 3)
            gk, ga = 'none', 0
            r = rng.random()
            if ev == 0:
                if time_guards and r < 0.5:
                    gk, ga = rng.choice(['after', 'idle']), rng.choice([1, 2])
                else:
                    gk = 'oracle'
            elif r < 0.35:
                gk = 'oracle'
            elif time_guards and r < 0.55:
                gk, ga = rng.choice(['after', 'idle']), rng.choice([0, 1, 2])
            elif r < 0.62:
                gk, ga = 'active', rng.randint(1, n)
            if gk == 'oracle':
                g += 1
                if g > max_oracle:
                    gk = 'none' if ev else 'after'
                    ga = 1
                    if not ev and not time_guards:
                        continue
            act = dict(D0)
            if codes and rng.random() < 0.5:
                snd = []
                if sends and rng.random() < 0.5:
                    snd.append((rng.randint(1, nev), rng.choice([0, 0, 1, 2]), rng.choice([0, 7])))
                act = desc(incx=rng.choice([0, 1]), sends=snd,
                           nots=[1] if rng.random() < (0.35 if snd else 0.15) else [], nf=rng.choice([0, 1]))
            if gk in ('after', 'idle') and rng.random() < 0.35:
                gk += 'p'       # the bare text after(d) / idle(d): identical on several transitions
            t = mk_trans(s, tg, ev, rng.choice([0, 0, 0, 1, -1, 2, 10, -2]), gk, ga, act)
            if contracts and rng.random() < 0.4:
                t['pre'], t['post'], t['inv'] = rng.choice([0, 1]), rng.choice([0, 1, 2]), rng.choice([0, 1])
            if t not in trans:
                trans.append(t)
        c['trans'] = trans
        if codes:
            for s in range(1, n + 1):
                if rng.random() < 0.3:
                    snd = [(rng.randint(1, nev), rng.choice([0, 1]), 0)] if sends and rng.random() < 0.3 else []
                    c['entry'][s - 1] = desc(incx=rng.choice([0, 1]), sends=snd)
                if rng.random() < 0.3:
                    c['exit'][s - 1] = desc(incx=rng.choice([0, 1]),
                                            nots=[2] if rng.random() < 0.1 else [])
        if contracts:
            for s in range(1, n + 1):
                if rng.random() < 0.4:
                    c['spre'][s - 1] = rng.choice([0, 1, 2])
                    c['spost'][s - 1] = rng.choice([0, 1])
                    c['sinv'][s - 1] = rng.choice([0, 1, 2])
        c['events'] = list(range(1, nev + 2))
        assert wf(c), c
        out.append(c)
    return out


# ---------------------------------------------------------------- F4: the charts shipped with sismic

def family_shipped(repo=None, max_oracle=7):
    """Abstractions of every statechart shipped in tests/yaml and docs/examples: structure, events and
    priorities kept, code dropped (probes are added by realize.py), guards become oracle guards, contract
    conditions become oracle conditions.  Charts that are not well-formed in the sense of DESIGN.md 2.1 or
    that carry more than max_oracle guards are skipped."""
    import glob
    import os
    from sismic.io import import_from_yaml
    from sismic.model import (CompoundState, OrthogonalState, FinalState, ShallowHistoryState, DeepHistoryState)
    repo = repo or os.environ.get('VERIF_REPO', '/repo')
    out = []
    files = sorted(glob.glob(os.path.join(repo, 'tests', 'yaml', '*.yaml'))
                   + glob.glob(os.path.join(repo, 'docs', 'examples', '**', '*.yaml'), recursive=True))
    for f in files:
        try:
            sc = import_from_yaml(filepath=f)
        except Exception:
            continue
        names = sorted(sc.states)
        ix = {n: i + 1 for i, n in enumerate(names)}
        kind, parent, initial, memory = [], [], [], []
        for n in names:
            st = sc.state_for(n)
            k = ('compound' if isinstance(st, CompoundState) else 'orthogonal' if isinstance(st, OrthogonalState)
                 else 'final' if isinstance(st, FinalState) else 'shallow' if isinstance(st, ShallowHistoryState)
                 else 'deep' if isinstance(st, DeepHistoryState) else 'basic')
            if k in COMPOSITE and not sc.children_for(n):
                k = 'basic'
            kind.append(k)
            parent.append(ix.get(sc.parent_for(n), 0))
            initial.append(ix.get(getattr(st, 'initial', None), 0) if k == 'compound' else 0)
            memory.append(ix.get(getattr(st, 'memory', None), 0) if k in HISTORY else 0)
        evs = sorted({t.event for t in sc.transitions if t.event})
        eix = {e: i + 1 for i, e in enumerate(evs)}
        c = new_chart(kind, parent, initial, memory)
        g = 0
        for t in sc.transitions:
            gk = 'none'
            if t.guard or not t.event:
                gk = 'oracle'
                g += 1
            prio = t.priority if isinstance(t.priority, int) else 0
            c['trans'].append(mk_trans(ix[t.source], ix.get(t.target, 0), eix.get(t.event, 0), prio, gk, 0, None,
                                       min(len(t.preconditions), 2), min(len(t.postconditions), 2),
                                       min(len(t.invariants), 2)))
        for n in names:
            st = sc.state_for(n)
            c['spre'][ix[n] - 1] = min(len(st.preconditions), 2)
            c['spost'][ix[n] - 1] = min(len(st.postconditions), 2)
            c['sinv'][ix[n] - 1] = min(len(st.invariants), 2)
        c['events'] = list(range(1, len(evs) + 2))
        c['source_file'] = os.path.relpath(f, repo)
        if g <= max_oracle and wf(c):
            out.append(c)
    for c in out:
        c.pop('source_file', None)
    return out


# ---------------------------------------------------------------- TLA+ literal emission

def tla_str(s):
    return '"' + s + '"'


def tla_seq(xs):
    return '<<' + ', '.join(xs) + '>>'


def tla_desc(d):
    d = dict(d, nf=d.get('nf', 0))      # charts recorded before the field existed
    if d == D0:
        return 'D0'
    sends = tla_seq('[ev |-> %d, dl |-> %d, par |-> %d]' % (s['ev'], s['dl'], s['par']) for s in d['sends'])
    return '[incx |-> %d, sends |-> %s, nots |-> %s, tick |-> %d, nf |-> %d]' % (
        d['incx'], sends, tla_seq(str(x) for x in d['nots']), d['tick'], d['nf'])


def tla_trans(t):
    if t['prio'] == 0 and t['gk'] == 'none' and dict(t['act'], nf=t['act'].get('nf', 0)) == D0 and not (t['pre'] or t['post'] or t['inv']):
        return 'T0(%d,%d,%d)' % (t['src'], t['tgt'], t['ev'])
    return ('[src |-> %d, tgt |-> %d, ev |-> %d, prio |-> %d, gk |-> "%s", ga |-> %d, act |-> %s, '
            'pre |-> %d, post |-> %d, inv |-> %d]') % (
        t['src'], t['tgt'], t['ev'], t['prio'], t['gk'], t['ga'], tla_desc(t['act']),
        t['pre'], t['post'], t['inv'])


def tla_chart(c):
    n = c['n']
    ints = lambda xs: tla_seq(str(x) for x in xs)
    return ('[n |-> %d, kind |-> %s, parent |-> %s, initial |-> %s, memory |-> %s, trans |-> %s, '
            'entry |-> %s, exit |-> %s, spre |-> %s, spost |-> %s, sinv |-> %s, events |-> %s]') % (
        n, tla_seq(tla_str(k) for k in c['kind']), ints(c['parent']), ints(c['initial']),
        ints(c['memory']), tla_seq(tla_trans(t) for t in c['trans']),
        tla_seq(tla_desc(d) for d in c['entry']), tla_seq(tla_desc(d) for d in c['exit']),
        ints(c['spre']), ints(c['spost']), ints(c['sinv']), ints(c['events']))


def tla_charts_module(name, charts):
    lines = ['---- MODULE %s ----' % name, 'EXTENDS Integers',
             '\\* generated by harness/gen_charts.py -- do not edit',
             'D0 == [incx |-> 0, sends |-> <<>>, nots |-> <<>>, tick |-> 0, nf |-> 0]',
             'T0(s,t,e) == [src |-> s, tgt |-> t, ev |-> e, prio |-> 0, gk |-> "none", ga |-> 0, '
             'act |-> D0, pre |-> 0, post |-> 0, inv |-> 0]',
             'Charts == <<']
    lines.append(',\n'.join(tla_chart(c) for c in charts))
    lines.append('>>')
    lines.append('====')
    return '\n'.join(lines) + '\n'


if __name__ == '__main__':
    import sys
    for n in range(1, int(sys.argv[1]) + 1 if len(sys.argv) > 1 else 6):
        print(n, count_skeletons(n))
