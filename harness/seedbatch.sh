#!/bin/sh
# usage: seedbatch.sh TAG:PROP ...   (runs /tmp/mut/out/TAG/{1,2} against PROP on scratch worktrees)
for tp in "$@"; do
  tag=${tp%%:*}; prop=${tp##*:}
  for n in 1 2; do
    [ -d /tmp/mut/out/$tag/$n ] || continue
    SEED_SCRATCH=1 /venv/bin/python harness/seedtest.py /tmp/mut/out/$tag/$n S-$tag-$n $prop 2>&1 | tail -2
  done
done
