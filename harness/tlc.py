"""Running TLC: work directories, cfg generation, output parsing."""
import json
import os
import re
import shutil
import subprocess
import time

VERIF = os.path.dirname(os.path.dirname(os.path.abspath(__file__)))
SPEC = os.path.join(VERIF, 'spec')
JAR = '/opt/veriftools/tla/tla2tools.jar:/opt/veriftools/tla/CommunityModules-deps.jar'


class TLCError(Exception):
    pass


def workdir(name):
    d = os.path.join(VERIF, '.work', os.environ.get('VERIF_WORK', ''), name)
    shutil.rmtree(d, ignore_errors=True)
    os.makedirs(d)
    for f in os.listdir(SPEC):
        if f.endswith('.tla'):
            shutil.copy(os.path.join(SPEC, f), d)
    return d


def tla_value(v):
    if isinstance(v, bool):
        return 'TRUE' if v else 'FALSE'
    if isinstance(v, int):
        return str(v)
    if isinstance(v, str):
        return '"%s"' % v
    if isinstance(v, (set, frozenset)):
        return '{' + ', '.join(tla_value(x) for x in sorted(v)) + '}'
    if isinstance(v, (list, tuple)):
        return '<<' + ', '.join(tla_value(x) for x in v) + '>>'
    if isinstance(v, dict):
        return '[' + ', '.join('%s |-> %s' % (k, tla_value(x)) for k, x in v.items()) + ']'
    raise TypeError(v)


def write_mc(d, base, constants, defs=(), spec='Spec', props=(), invariants=(), view=None,
             constraints=(), action_constraints=(), extra_cfg=(), name='MC', deadlock=False):
    """MC.tla extends `base`; every constant is emitted as a definition and bound with <-."""
    lines = ['---- MODULE %s ----' % name, 'EXTENDS %s' % base]
    cfg = ['SPECIFICATION %s' % spec, 'CONSTANTS']
    for k, v in constants.items():
        lines.append('MC_%s == %s' % (k, tla_value(v)))
        cfg.append(' %s <- MC_%s' % (k, k))
    lines += list(defs)
    lines.append('====')
    if view:
        cfg.append('VIEW %s' % view)
    for x in constraints:
        cfg.append('CONSTRAINT %s' % x)
    for x in action_constraints:
        cfg.append('ACTION_CONSTRAINT %s' % x)
    for x in invariants:
        cfg.append('INVARIANT %s' % x)
    for x in props:
        cfg.append('PROPERTY %s' % x)
    cfg.append('CHECK_DEADLOCK %s' % ('TRUE' if deadlock else 'FALSE'))
    cfg += list(extra_cfg)
    with open(os.path.join(d, name + '.tla'), 'w') as f:
        f.write('\n'.join(lines) + '\n')
    with open(os.path.join(d, name + '.cfg'), 'w') as f:
        f.write('\n'.join(cfg) + '\n')


_STATS = re.compile(r'(\d+) states generated, (\d+) distinct states found, (\d+) states left on queue')


def run(d, name='MC', workers=16, timeout=3600, env=None, extra=(), heap='8g', simulate=None):
    """Run TLC in work dir d.  Returns dict(out, json, generated, distinct, ok, violated, wall_s, cmd)."""
    cmd = ['java', '-Xmx' + heap, '-XX:+UseParallelGC', '-cp', JAR, 'tlc2.TLC',
           '-workers', str(workers), '-metadir', os.path.join(d, 'meta_' + name), '-noGenerateSpecTE']
    if simulate:
        cmd += ['-simulate', simulate]
    cmd += list(extra) + [name + '.tla']
    e = dict(os.environ)
    if env:
        e.update(env)
    t0 = time.time()
    try:
        p = subprocess.run(cmd, cwd=d, env=e, stdout=subprocess.PIPE, stderr=subprocess.STDOUT,
                           timeout=timeout, text=True, errors='replace')
        out, rc, timed_out = p.stdout, p.returncode, False
    except subprocess.TimeoutExpired as ex:
        out = ex.stdout if isinstance(ex.stdout, str) else (ex.stdout or b'').decode('utf8', 'replace')
        rc, timed_out = -9, True
    wall = time.time() - t0
    js, rest = [], []
    for line in out.splitlines():
        if line.startswith('"{') or line.startswith('"['):
            try:
                js.append(json.loads(json.loads(line)))
                continue
            except ValueError:
                pass
        rest.append(line)
    # the JSON lines (possibly millions) are kept parsed only; everything else is TLC's own output
    out = '\n'.join(rest)
    del rest
    with open(os.path.join(d, name + '.out'), 'w') as f:
        f.write(out[:2000000])
    gen = dist = 0
    for m in _STATS.finditer(out):
        gen, dist = int(m.group(1)), int(m.group(2))
    res = dict(out=out, json=js, generated=gen, distinct=dist, rc=rc, wall_s=round(wall, 2),
               cmd=' '.join(cmd), timed_out=timed_out,
               violated=('is violated' in out or 'Invariant' in out and 'violated' in out),
               completed='Model checking completed' in out or 'Finished computing' in out,
               error=None)
    if 'Error:' in out and not res['violated']:
        idx = out.index('Error:')
        res['error'] = out[idx:idx + 1500]
    return res


def counterexample(out):
    """The textual counterexample (states) of a TLC run, if any."""
    i = out.find('Error:')
    return out[i:i + 20000] if i >= 0 else ''
