"""Run the repository's pinned suite (guard off) and compare with /root/.vp/BASELINE.json."""
import json
import os
import subprocess
import sys
import tempfile
import xml.etree.ElementTree as ET


def main():
    base = json.load(open('/root/.vp/BASELINE.json'))
    want = set(base['stable_pass'])
    fd, path = tempfile.mkstemp(suffix='.xml')
    os.close(fd)
    env = dict(os.environ)
    env.pop('SISMIC_VERIF', None)
    cmd = ['/venv/bin/python', '-m', 'pytest', '-ra', '-q', '-p', 'no:cacheprovider', '--timeout=900',
           '--continue-on-collection-errors', '--junitxml=' + path]
    subprocess.run(cmd, cwd='/repo', env=env, stdout=subprocess.DEVNULL, stderr=subprocess.DEVNULL)
    passed = set()
    failed = set()
    for tc in ET.parse(path).getroot().iter('testcase'):
        name = '%s::%s' % (tc.get('classname'), tc.get('name'))
        bad = any(ch.tag in ('failure', 'error', 'skipped') for ch in tc)
        (failed if bad else passed).add(name)
    os.unlink(path)
    missing = sorted(want - passed)
    print('baseline: %d/%d stable tests pass; %d other failures' % (len(want & passed), len(want), len(failed - want)))
    for m in missing[:20]:
        print('  NOT PASSING:', m)
    return 1 if missing else 0


if __name__ == '__main__':
    sys.exit(main())
