"""Regenerates /verif/MANIFEST.json from the table below (keeps it valid at all times)."""
import json
import os
import subprocess

VERIF = os.path.dirname(os.path.dirname(os.path.abspath(__file__)))

INTERP_NOTE = ('Trusted: TLC + CommunityModules; harness/realize.py (abstract chart -> real Statechart) and '
               'harness/driver.py (projection of the real objects); the probes injected through initial_context. '
               'Exhaustive only within the stated bounds (evidence: stages[].consts, charts); beyond them seeded '
               'random drivers. Every call into the code under test runs under a watchdog: a call that does not return (or a '
               'statechart that cannot be built through the public API) is reported as clause "returns" of the property checked.')

CHECKS = {
    'C01': dict(engine='tlc-sismic', ref='6 C01', technique='TLC model checking of spec/Sismic.tla + TLC trace validation (spec/SismicTrace.tla) of replayed model edges',
                text='TLC explores every reachable configuration x pending event x guard valuation of selection-bundle charts '
                     '(Sismic.tla) and checks the declarative selection formula (Props!C01_*); every explored edge is replayed '
                     'on the real Interpreter and TLC evaluates the same formula on the recorded execution.'),
    'C02': dict(engine='tlc-sismic', ref='6 C02', technique='TLC model checking over all well-formed skeletons + TLC trace validation of every replayed edge',
                text='Every well-formed skeleton up to 4 (quick) / 5 (thorough) states with every well-formed transition, the shipped charts and '
                     'targeted history/orthogonal families are explored exhaustively by TLC; Legal/Stable (Chart.tla) is evaluated by TLC on '
                     'every recorded real step, on the recorded runs of the repository test-suite (env-guarded hook), and the structural '
                     'queries of Statechart are compared with Chart.tla (ChartQueries.tla).'),
    'C03': dict(engine='tlc-sismic', ref='6 C03', technique='TLC model checking + TLC trace validation with code probes, several build variants',
                text='Probes on every entry/exit/action fragment; TLC checks on model edges and on the recorded real logs '
                     'that the executed fragments equal the MacroStep lists, blocks are atomic, and the documented order holds.'),
    'C04': dict(engine='tlc-sismic', ref='6 C04', technique='TLC model checking over multi-enabled bundles + TLC trace validation',
                text='All guard valuations enabling two or more transitions at once on bundle charts (same source, same region, '
                     'different regions, leaving a region); error kind and "nothing happened" evaluated by TLC on real runs.'),
    'C05': dict(engine='tlc-sismic', ref='6 C05', technique='TLC model checking of all queue/advance/execute interleavings + TLC trace validation with a ghost pending multiset',
                text='All interleavings of queue(e, delay), clock advances and execute_once within bounds; a ghost multiset of '
                     'pending events decides which event each real step must consume; half of the runs start at a large absolute time, the others '
                     'share their Statechart with a second, busy interpreter.'),
    'C06': dict(engine='tlc-sismic', ref='6 C06', technique='TLC model checking over all skeletons with history states + TLC trace validation with ghost exit snapshots',
                text='All skeletons containing shallow/deep history states; ghost last-exit snapshots decide what each '
                     'restoration micro step of the real interpreter must enter; also charts whose history states are targeted from inside their parent.'),
    'C13': dict(engine='tlc-sismic', ref='6 C13', technique='TLC model checking with after/idle guards, clock advances and in-step ticks + TLC trace validation with ghost entry/idle times',
                text='Charts with after/idle/active guards; the clock advances between and during steps; TLC checks that '
                     'every time value seen during a real step is the sampled one and that after()/idle() evaluate as documented in guards '
                     'and inside post-conditions and invariants.'),
    'C07': dict(engine='tlc-sismic', ref='6 C07', technique='TLC model checking of Sismic.tla + TLC evaluation of the twin-run equality relation (Props!RefEq) on paired recorded runs: build variants and PYTHONHASHSEED values',
                text='Every model edge is replayed on pairs of real statecharts that differ only in declaration order (API orders, '
                     'editing-API construction, YAML, reversed YAML) and, in other processes, under other string-hash seeds; TLC '
                     'evaluates equality of the paired observations (macro steps, code order, sent events, context, error class).'),
    'C08': dict(engine='tlc-sismic', ref='6 C08', level='model_checking', technique='TLC model checking with the failing condition occurrence enumerated inside the model (cfail) + TLC trace validation against the failure-free twin',
                text='Contract-carrying charts; the model enumerates which single condition occurrence fails; TLC checks on real '
                     'runs the evaluation points per kind, first-false-raises with class/owner/condition, prefix-of-the-failure-free-run, and __old__.'),
    'C09': dict(engine='tlc-sismic', ref='6 C09', technique='TLC model checking with an in-model ignore_contract twin + TLC evaluation of the twin relation on paired real runs',
                text='Lock-step pairs (contracts on / ignore_contract=True) over contract and time-guard charts, and over the shipped contract '
                     'charts run with their real code (trace hook); TLC checks equality modulo condition evaluations, and that ignoring '
                     'runs never evaluate a condition nor raise a ContractError.'),
    'C10': dict(engine='tlc-sismic', ref='6 C10', technique='TLC model checking with the failing meta-event delivery enumerated inside the model (mfail) + TLC trace validation with real property statecharts',
                text='Real property statecharts that turn final at the k-th meta-event for every k; TLC checks completeness/order/'
                     'attributes of the meta-events each listener received, fail-fast truncation, monitor clock, non-intrusiveness (twin); a '
                     'watchdog property statechart (delayed self-sent event) must fire at the very next meta-event.'),
    'C14': dict(engine='tlc-clock', ref='6 C14', technique='TLC model checking of spec/Clock.tla (ghost ideal value) + Apalache inductive invariant on spec/ClockInd.tla (unbounded integers) + replay of every edge on the real SimulatedClock + TLC trace validation (spec/ClockTrace.tla)',
                text='All sequences of start/stop/speed/set/pass within bounds; Value = ideal, monotonic, exact/rejected assignment; '
                     'SynchronizedClock through the interpreter engine (clause C14.sync).',
                note='Trusted: TLC; the scripted integral time source substituted for time.time (wall-clock accuracy is not claimed); integers only.'),
    'C17': dict(engine='tlc-sismic', ref='6 C17', technique='TLC model checking of Sismic.tla + TLC evaluation of the twin relation between a chart and its rename_state/copy_from_statechart image',
                text='Order-preserving renamings of random subsets applied with the real rename_state, and guests plugged with '
                     'copy_from_statechart; the renamed/host run must equal the original run after mapping names back.'),
    'C18': dict(engine='tlc-sismic', ref='6 C18', level='model_checking', technique='TLC model checking of Sismic.tla + crash-point enumeration in the binding: pickle/deepcopy at macro-step boundaries, TLC evaluates the three-way twin relation',
                text='At macro-step boundaries of every model behaviour the real interpreter is pickled or deep-copied; copy, original '
                     'and an undisturbed run continue in lock step; TLC checks their observations (incl. __old__ verdict inputs, history, delayed events) are equal. '
                     'A third of the snapshots are taken while the SimulatedClock runs in real-time mode over a controlled wall clock.'),
    'C11': dict(engine='tlc-yaml', ref='6 C11', technique='TLC model checking of spec/Yaml.tla (RoundTrip) + TLC evaluation (spec/YamlTrace.tla) of real export/import round trips + twin-run relation for behaviour',
                text='Import(Export(c)) = c is checked by TLC on the abstract documents of every start chart; the real '
                     'export_to_yaml/import_from_yaml pair is run on charts with plain, unicode and YAML-significant names and '
                     'multi-line code in four build variants, field-by-field and == compared by TLC; the re-import is executed in lock step with the original.',
                note='Trusted: TLC; harness/yaml_check.py rich projection (strings interned). String-level YAML fidelity is exercised, not modelled.'),
    'C12': dict(engine='tlc-yaml', ref='6 C12', level='model_checking', technique='TLC fault enumeration inside spec/YamlMC.tla (Accepts <=> DocSound) + every faulty document rendered to YAML, imported by the real code, outcome decided by TLC (spec/YamlTrace.tla)',
                text='Up to 2 (quick) / 3 (thorough) faults of 21 kinds at every position of the export of every start chart; '
                     'the model importer (schema, DFS, add_state/add_transition guard chains of Model.tla, validate) is checked '
                     'against the declarative rules, then the real importer against both.',
                note='Trusted: TLC; harness/yaml_check.py rendering of abstract documents to YAML text. Silently ignored keys are outside the fault space.'),
    'C16': dict(engine='tlc-model', ref='6 C16', technique='TLC model checking of spec/Model.tla (soundness invariants, failed => unchanged) + every edge replayed on a real Statechart + TLC trace validation (spec/ModelTrace.tla)',
                text='Every editing call with valid and invalid arguments from every start structure, exhaustive remove/re-add pairs and '
                     'triples of move_state, plus seeded random sessions; TLC decides soundness of the real structure after each call, failed-edit-changes-nothing, and the exact documented effect.',
                note='Trusted: TLC; harness/model_edit.py projection of a Statechart through its public queries. Transitions identified by (source, target, event).'),
    'C15': dict(engine='tlc-system', ref='6 C15', technique='TLC model checking of spec/System.tla (two interpreters + callables, bind/detach) + every edge replayed on real bound interpreters + TLC trace validation (spec/SystemTrace.tla)',
                text='All sequences of bind/detach/queue/advance/execute_once over pairs of sending charts within bounds (chains, '
                     'fan-out, cycles, self-binding, callables, a callable that detaches another listener while being notified); TLC decides what had to be delivered during each real call, and '
                     'the queue formulas of each target with the delivered events in its ghost multiset.',
                note='Trusted: TLC; deliveries to a bound interpreter are observed by wrapping its queue method before binding.'),
    'C19': dict(engine='tlc-bdd', ref='6 C19', technique='TLC enumeration of scenarios over spec/Bdd.tla + each scenario run through the real execute_bdd/behave + TLC decides every reported step status (spec/BddTrace.tla)',
                text='Every scenario of up to 3 (quick) / 4 (thorough) predefined steps in the documented spelling that ends with '
                     'an assertion, true and false alike, plus seeded longer scenarios; "passed" must coincide with the documented meaning '
                     'computed by the model (parameter records in inline, table and mixed spelling, mutable list literals); the sismic.testing '
                     'predicates and Interpreter.execute(max_steps) are checked on the interpreter engine.',
                note="Trusted: TLC; behave's JSON report for the per-step status; harness/bdd_check.py rendering of steps to Gherkin."),
    'C20': dict(engine='tlc-runner', ref='6 C20', technique='TLC model checking of spec/Runner.tla (all schedules, safety + liveness under fairness) + every maximal schedule forced on the real threads by a deterministic scheduler + TLC trace validation (spec/RunnerTrace.tla)',
                text='Runner thread against a client thread at the granularity of the scheduling points (queue split at '
                     'bisect/insert, execute_once at clock/peek/pop); safety clauses on every observed step, StopReturns/FinalStops '
                     'under weak fairness; the client may start the runner itself (stop before start, start twice), half of the schedules run with '
                     'interval > 0 and overrunning cycles; known finding D11 (queue races) classified by the ghost flag raced.',
                note='Trusted: TLC; CPython GIL (switches matter only at the instrumented points); one client thread.'),
}

PENDING = {
}


def main():
    props = [json.loads(l)['id'] for l in open(os.path.join(VERIF, 'properties.jsonl'))]
    commits = []
    try:
        out = subprocess.run(['git', '-C', '/repo', 'log', '--format=%h %s'], stdout=subprocess.PIPE, text=True).stdout
        commits = [l.split()[0] for l in out.splitlines() if l.split(' ', 1)[1].startswith('verif:')]
    except Exception:
        pass
    checks = []
    for p in props:
        if p not in CHECKS:
            continue
        k = CHECKS[p]
        checks.append({
            'property_id': p,
            'quick_cmd': './check %s --tier quick' % p,
            'thorough_cmd': './check %s --tier thorough' % p,
            'evidence_file': 'evidence/%s.json' % p,
            'replay_cmd_template': './check %s --replay {path}' % p,
            'engine': k['engine'],
            'level_claimed': {'category': k.get('level', 'model_checking'), 'text': k['text'],
                              'design_ref': 'DESIGN.md section ' + k['ref']},
            'level_note': k.get('note', INTERP_NOTE),
            'technique': k['technique'],
        })
    na = [{'property_id': p, 'reason': PENDING.get(p, 'check not built yet (build in progress, DESIGN.md section 10); '
                                                   'will be claimed once its TLA+ check exists')}
          for p in props if p not in CHECKS]
    engines_extra = [
        {'name': 'tlc-system', 'path': 'spec/System.tla, spec/SystemTrace.tla; harness/system_check.py', 'serves_properties': ['C15'],
         'kind_free_text': 'TLA+ spec of bound interpreters; edges replayed on real interpreters; runs decided by TLC'},
        {'name': 'tlc-bdd', 'path': 'spec/Bdd.tla, spec/BddMC.tla, spec/BddTrace.tla; harness/bdd_check.py', 'serves_properties': ['C19'],
         'kind_free_text': 'TLA+ spec of the predefined BDD steps; scenarios run through behave; verdicts decided by TLC'},
        {'name': 'tlc-runner', 'path': 'spec/Runner.tla, spec/RunnerTrace.tla; harness/sched.py, harness/runner_check.py', 'serves_properties': ['C20'],
         'kind_free_text': 'TLA+ spec of AsyncRunner vs client; schedules forced on real threads; observed steps decided by TLC'},
        {'name': 'tlc-yaml', 'path': 'spec/Yaml.tla, spec/YamlMC.tla, spec/YamlTrace.tla; harness/yaml_check.py',
         'serves_properties': ['C11', 'C12'], 'kind_free_text': 'TLA+ spec of the YAML importer/exporter on abstract documents; fault enumeration in the model; real importer decided by TLC'},
        {'name': 'tlc-model', 'path': 'spec/Model.tla, spec/ModelMC.tla, spec/ModelTrace.tla; harness/model_edit.py',
         'serves_properties': ['C16'], 'kind_free_text': 'TLA+ spec of the structural editing API; edges replayed on a real Statechart; sessions decided by TLC'},
        {'name': 'tlc-clock', 'path': 'spec/Clock.tla, spec/ClockTrace.tla; harness/clock_check.py',
         'serves_properties': ['C14'], 'kind_free_text': 'TLA+ spec of SimulatedClock checked by TLC; edges replayed on the real clock; recorded runs validated by TLC'},
    ]
    engines = [
        {'name': 'tlc-sismic', 'path': 'spec/Sismic.tla, spec/SismicTrace.tla, spec/Semantics.tla, spec/Props.tla, spec/Chart.tla; harness/',
         'serves_properties': [p for p in props if p in CHECKS and CHECKS[p]['engine'] == 'tlc-sismic'],
         'kind_free_text': 'explicit TLA+ specification of the interpreter checked with TLC; conformance in both directions '
                           '(model edges replayed on the real code; recorded executions validated by TLC)'},
    ] + [e for e in engines_extra if any(p in CHECKS for p in e['serves_properties'])]
    m = {'version': 1,
         'setup_cmd': './setup.sh',
         'hooks': {'guard': 'SISMIC_VERIF',
                   'enable': 'the checks export SISMIC_VERIF=1 (see ./check); /venv installs /repo in editable mode, nothing to rebuild',
                   'baseline_off_cmd': 'cd /repo && env -u SISMIC_VERIF /venv/bin/python -m pytest -ra -q -p no:cacheprovider --timeout=900 --continue-on-collection-errors',
                   'source_commits': commits, 'add_only': True},
         'engines': engines, 'checks': checks,
         'notes': 'See DESIGN.md. known_findings.json lists the genuine defects found (fixed ones suppress nothing).',
         'not_applicable': na}
    with open(os.path.join(VERIF, 'MANIFEST.json'), 'w') as f:
        json.dump(m, f, indent=1)
    print('MANIFEST: %d checks, %d not claimed' % (len(checks), len(na)))


if __name__ == '__main__':
    main()
