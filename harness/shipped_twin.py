"""Runs every shipped statechart twice in lock step -- with contract checking and with ignore_contract=True --
on the same seeded random inputs, with its REAL Python code, under the trace hook (C09, second half of the
quantifier: 'including the shipped elevator/microwave contract charts').  usage: shipped_twin.py <seed> <runs>"""
import glob
import os
import random
import sys

from sismic.io import import_from_yaml
from sismic.interpreter import Interpreter
from sismic.model import Event


def main():
    seed, runs = int(sys.argv[1]), int(sys.argv[2])
    repo = os.environ.get('VERIF_REPO', '/repo')
    rng = random.Random(seed)
    files = sorted(glob.glob(os.path.join(repo, 'tests', 'yaml', '*.yaml'))
                   + glob.glob(os.path.join(repo, 'docs', 'examples', '**', '*.yaml'), recursive=True))
    for f in files:
        try:
            sc_a, sc_b = import_from_yaml(filepath=f), import_from_yaml(filepath=f)
        except Exception:
            continue
        contracts = any(s.preconditions or s.postconditions or s.invariants
                        for s in map(sc_a.state_for, sc_a.states)) or any(
            t.preconditions or t.postconditions or t.invariants for t in sc_a.transitions)
        if not contracts:
            continue
        events = sc_a.events_for() or ['none']
        for _ in range(runs):
            a = Interpreter(sc_a, ignore_contract=False)
            b = Interpreter(sc_b, ignore_contract=True)
            for _ in range(rng.randint(5, 40)):
                r = rng.random()
                if r < 0.45:
                    kw = {'floor': rng.randint(0, 6)}
                    if rng.random() < 0.2:
                        kw['delay'] = rng.choice([1, 2, 5])
                    name = rng.choice(events)
                    a.queue(Event(name, **kw))
                    b.queue(Event(name, **kw))
                elif r < 0.6:
                    d = rng.choice([1, 2, 5, 10])
                    a.clock.time += d
                    b.clock.time += d
                else:
                    ea = eb = None
                    try:
                        a.execute_once()
                    except Exception as e:
                        ea = e
                    try:
                        b.execute_once()
                    except Exception as e:
                        eb = e
                    if ea is not None or eb is not None:
                        break
    return 0


if __name__ == '__main__':
    sys.exit(main())
